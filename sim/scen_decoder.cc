// Decoder-level scenarios on the LHADecoderCallback seam: C14 (read histories
// against a single maximal read and an independent CRC) and C09 (memory safety
// under corrupted streams; sanitizers are the monitor).
#include "framework.h"
#include <cstdlib>

extern "C" {
#include "lib/lha_decoder.h"
LHADecoderType *lha_decoder_for_name(char *name);
}

static const char *METHODS[] = {"-lz4-", "-lz5-", "-lzs-", "-lh0-", "-lh1-", "-lh4-", "-lh5-",
                                "-lh6-", "-lh7-", "-lhx-", "-lk7-", "-pm0-", "-pm1-", "-pm2-"};

// ---------------------------------------------------------------- SimCompressed

struct SimCompressed {
	const Bytes *data;
	size_t pos = 0;
	bool zero_flavour = false;   // return 0 as soon as a request cannot be filled
	bool dead = false;
	uint8_t poison = 0xA5;       // written over the part of a request that is not answered
	uint64_t calls = 0;
	size_t short_max = 0;        // S-SHORT (C09 only): answer at most this many bytes per request although more are there
	int64_t gap_at = -1;         // S-GAP (C09 only): this one request is answered with 0 bytes, the following ones normally again
	static size_t cb(void *buf, size_t n, void *u) {
		SimCompressed *s = (SimCompressed *) u;
		++s->calls;
		sim_seam("comp.read", n, s->pos, true);
		// The whole request buffer belongs to the callback: whatever is not
		// answered is overwritten with a per-run poison value, so a decoder
		// that consumes bytes it was not given behaves deterministically here
		// (and differently between the reference and the history run).
		memset(buf, s->poison, n);
		if (s->dead) return 0;
		if (s->gap_at >= 0 && (int64_t) s->calls - 1 == s->gap_at) return 0;
		size_t rem = s->data->size() - s->pos;
		if (n > rem) {
			if (s->zero_flavour) { s->dead = true; return 0; }
			n = rem;
		}
		if (s->short_max && n > s->short_max) n = s->short_max;
		if (n) memcpy(buf, s->data->data() + s->pos, n);
		s->pos += n;
		return n;
	}
};

struct MonRec { std::vector<std::pair<unsigned, unsigned>> calls; };
static void mon_cb(unsigned block, unsigned total, void *u) {
	((MonRec *) u)->calls.push_back({block, total});
	sim_seam("monitor", block, total);
}

// structured streams: block/table headers of the static-Huffman family and of -pm2- with boundary values in their
// count and single-code fields (real encoders never emit these forms; random bytes reach them with probability ~2^-17)
struct BitW {
	Bytes out; uint32_t acc = 0; int nb = 0;
	void put(uint32_t v, int bits) { for (int b = bits - 1; b >= 0; --b) { acc = (acc << 1) | ((v >> b) & 1); if (++nb == 8) { out.push_back((uint8_t) acc); acc = 0; nb = 0; } } }
	void finish() { if (nb) { acc <<= (8 - nb); out.push_back((uint8_t) acc); acc = 0; nb = 0; } }
};

static void gen_structured(Rng &rng, const std::string &method, Bytes &out) {
	BitW w;
	if (method == "-pm2-") {
		w.put((uint32_t) rng.below(2), 1);
		static const uint32_t ncs[] = {0, 1, 8, 9, 10, 28, 29, 30, 31, 16, 20};
		uint32_t nc = ncs[rng.below(11)];
		uint32_t minlen = rng.chance(1, 3) ? 0 : (uint32_t) rng.below(8);
		w.put(nc, 5);
		w.put(minlen, 3);
		if (minlen != 0) {
			uint32_t lb = (uint32_t) rng.below(8);
			w.put(lb, 3);
			for (uint32_t i = 0; i < nc; ++i) w.put((uint32_t) rng.below(1u << lb), (int) lb);
		}
		// offset tree: 5 lengths of 3 bits; incomplete and over-subscribed shapes
		static const uint32_t shapes[][5] = {{1, 7, 0, 0, 0}, {7, 7, 7, 7, 7}, {1, 1, 1, 1, 1}, {0, 0, 0, 0, 5}, {2, 3, 7, 6, 5}, {0, 0, 0, 0, 0}};
		const uint32_t *sh = shapes[rng.below(6)];
		for (int i = 0; i < 5; ++i) w.put(rng.chance(1, 4) ? (uint32_t) rng.below(8) : sh[i], 3);
	} else {
		int offbits = (method == "-lh4-" || method == "-lh5-") ? 4 : method == "-lk7-" ? 6 : 5;
		int blocks = 1 + (int) rng.below(2);
		for (int b = 0; b < blocks; ++b) {
			static const uint32_t lens[] = {0, 1, 2, 3, 16, 300, 65535};
			w.put(lens[rng.below(7)], 16);
			// temporary table
			static const uint32_t tn[] = {0, 0, 1, 3, 19, 20, 31};
			uint32_t n = tn[rng.below(7)];
			w.put(n, 5);
			if (n == 0) w.put((uint32_t) rng.below(32), 5);
			else for (uint32_t i = 0; i < n && i < 31; ++i) {
				uint32_t l = rng.chance(1, 6) ? 7 : (uint32_t) rng.below(7);
				w.put(l, 3);
				if (l == 7) { uint32_t ones = (uint32_t) rng.below(12); for (uint32_t k = 0; k < ones; ++k) w.put(1, 1); w.put(0, 1); }
				if (i == 2) w.put((uint32_t) rng.below(4), 2);
			}
			// code table
			static const uint32_t cn[] = {0, 0, 0, 1, 2, 288, 289, 290, 509, 510, 511};
			uint32_t nc = cn[rng.below(11)];
			w.put(nc, 9);
			if (nc == 0) { static const uint32_t cv[] = {0, 1, 255, 256, 257, 258, 288, 289, 509, 510, 511}; w.put(rng.chance(3, 4) ? cv[rng.below(11)] : (uint32_t) rng.below(512), 9); }
			else for (uint32_t i = 0; i < nc; ++i) w.put((uint32_t) rng.below(16), 1 + (int) rng.below(4));
			// offset table
			uint32_t maxo = (1u << offbits) - 1;
			uint32_t on = rng.chance(1, 2) ? 0 : (rng.chance(1, 2) ? maxo : (uint32_t) rng.below(maxo + 1));
			w.put(on, offbits);
			if (on == 0) w.put(rng.chance(1, 2) ? maxo : (uint32_t) rng.below(maxo + 1), offbits);
			else for (uint32_t i = 0; i < on; ++i) { uint32_t l = (uint32_t) rng.below(8); w.put(l, 3); if (l == 7) { w.put((uint32_t) rng.below(2), 1); w.put(0, 1); } }
			// commands
			size_t nbits = 16 + rng.below(400);
			for (size_t i = 0; i < nbits; ++i) w.put((uint32_t) rng.below(2), 1);
		}
	}
	size_t tail = rng.below(64);
	for (size_t i = 0; i < tail; ++i) w.put(rng.byte(), 8);
	w.finish();
	out = w.out;
}

// stream generation shared by C14 and C09 ------------------------------------

static void gen_stream(Rng &rng, Plan &p, bool hostile) {
	std::string method = METHODS[rng.below(14)];
	p.sets("method", method);
	auto pls = payloads_for(method);
	// stored methods share the -lh0- payloads
	if (pls.empty()) pls = payloads_for("-lh0-");
	int64_t true_len = 0;
	int mode = (int) rng.below(hostile ? 10 : 12);
	bool newfam = method == "-lh4-" || method == "-lh5-" || method == "-lh6-" || method == "-lh7-" || method == "-lhx-" || method == "-lk7-";
	if ((newfam || method == "-pm2-") && rng.chance(hostile ? 1 : 1, hostile ? 4 : 10)) {
		gen_structured(rng, method, p.stream);
		true_len = (int64_t) rng.below(3000);
		p.sets("payload", "structured");
	} else if (!pls.empty() && mode >= 2) {
		const Payload *pl = rng.pick(pls);
		uint32_t n = (uint32_t) pl->plain.size();
		if (!pl->cuts.empty() && rng.chance(4, 5)) {
			// bias to small outputs
			size_t hi = pl->cuts.size();
			size_t k = rng.below(rng.chance(2, 3) ? std::min<size_t>(hi, 30) : hi);
			n = pl->cuts[k].first;
		}
		uint32_t need = pl->need(n);
		p.stream.assign(pl->comp.begin(), pl->comp.begin() + need);
		true_len = n;
		p.sets("payload", pl->id);
	} else if (mode == 0) {
		size_t n = rng.below(rng.chance(1, 4) ? 3000 : 200);
		p.stream.resize(n);
		for (auto &b : p.stream) b = rng.byte();
		true_len = (int64_t) rng.below(5000);
		p.sets("payload", "random");
	} else {
		size_t n = rng.below(600);
		p.stream.assign(n, rng.chance(1, 2) ? 0x00 : 0xff);
		true_len = (int64_t) rng.below(5000);
		p.sets("payload", "const");
	}
	// stored-byte faults inside the compressed data
	int nf = 0;
	if (hostile ? rng.chance(4, 5) : rng.chance(1, 3)) nf = 1 + (int) rng.below(hostile ? 6 : 3);
	for (int i = 0; i < nf && !p.stream.empty(); ++i) {
		size_t off = rng.chance(1, 2) ? rng.below(std::min<size_t>(p.stream.size(), 64)) : rng.below(p.stream.size());
		int kind = (int) rng.below(4);
		if (kind == 0) p.stream[off] ^= (uint8_t)(1u << rng.below(8));
		else if (kind == 1) p.stream[off] = rng.byte();
		else if (kind == 2) { size_t n = std::min<size_t>(p.stream.size() - off, 1 + rng.below(8)); for (size_t k = 0; k < n; ++k) p.stream[off + k] = rng.byte(); }
		else { size_t n = std::min<size_t>(p.stream.size() - off, 1 + rng.below(16)); for (size_t k = 0; k < n; ++k) p.stream[off + k] = rng.chance(1, 2) ? 0 : 0xff; }
		p.cfg["nfaults"] = std::to_string(i + 1);
	}
	if (rng.chance(1, 5) && !p.stream.empty()) {
		p.stream.resize(rng.below(p.stream.size()));   // truncation
		p.sets("cut", "1");
	}
	// declared length
	int64_t declared;
	switch (rng.below(10)) {
		case 0: declared = 0; break;
		case 1: declared = 1; break;
		case 2: declared = true_len + 1; break;
		case 3: declared = true_len > 0 ? true_len - 1 : 0; break;
		case 4: declared = true_len + (int64_t) rng.below(300); break;
		case 5: { static const int64_t bs[] = {4096, 8192, 16384, 32768, 65536, 1024, 2048}; declared = bs[rng.below(7)] * (1 + (int64_t) rng.below(3)) + (int64_t) rng.below(3) - 1; break; }
		case 6: declared = rng.chance(1, 8) ? (hostile ? 4 << 20 : 1 << 20) : (int64_t) rng.below(20000); break;
		default: declared = true_len; break;
	}
	p.seti("declared", declared);
	p.seti("truelen", true_len);
	p.sets("eod", rng.chance(1, 2) ? "short" : "zero");
}

static void gen_reads(Rng &rng, Plan &p) {
	int64_t declared = p.geti("declared");
	int style = (int) rng.below(6);
	int64_t want = declared + 8;
	int64_t sum = 0;
	static const uint32_t primes[] = {1, 2, 3, 5, 7, 13, 31, 61, 127, 251, 509, 1021, 4093};
	while (sum < want && p.reads.size() < 4000) {
		uint32_t k;
		switch (style) {
			case 0: k = 1; break;
			case 1: k = primes[rng.below(13)]; break;
			case 2: k = (uint32_t) rng.below(100); break;
			case 3: k = (uint32_t) rng.below(5000); break;
			case 4: k = (uint32_t)(declared + 1 + rng.below(100)); break;
			default: k = rng.chance(1, 4) ? 0 : (uint32_t) rng.below(rng.chance(1, 2) ? 20 : 3000); break;
		}
		if (style == 0 && declared > 3000) k = 1 + (uint32_t) rng.below(64);
		p.reads.push_back(k);
		sum += k;
		if (rng.chance(1, 10)) p.reads.push_back(0);
	}
	// keep reading after the end
	int extra = (int) rng.below(4);
	for (int i = 0; i < extra; ++i) p.reads.push_back((uint32_t) rng.below(50));
	int m = (int) rng.below(4);
	p.seti("monitor_at", m == 0 ? -1 : m == 1 ? 0 : (int64_t) rng.below(p.reads.size() + 1));
}

// A second decoder of the same method, alive while the decoder under test works: its own stream (the run's stream
// reversed and salted, so that cross-talk shows), its own source object on the heap, read in between and released - source
// and all - at a seeded point.  Decoders are independent objects: nothing the companion does may reach the other one.
struct Companion {
	LHADecoder *d = nullptr;
	SimCompressed *src = nullptr;
	Bytes *data = nullptr;
	Bytes ref, got;
	size_t declared = 0;
	bool make(LHADecoderType *dt, const Plan &p) {
		data = new Bytes(p.stream.rbegin(), p.stream.rend());
		for (size_t i = 0; i < data->size(); i += 3) (*data)[i] ^= (uint8_t)(0x35 + i);
		declared = std::min<size_t>((size_t) p.geti("declared"), 20000);
		// what it yields alone
		{
			SimCompressed s0; s0.data = data; s0.zero_flavour = p.gets("eod") == "zero";
			LHADecoder *d0 = lha_decoder_new(dt, SimCompressed::cb, &s0, declared);
			if (!d0) return false;
			ref.resize(declared + 1);
			size_t r = lha_decoder_read(d0, ref.data(), declared + 1);
			ref.resize(std::min(r, declared + 1));
			lha_decoder_free(d0);
		}
		src = new SimCompressed;
		src->data = data;
		src->zero_flavour = p.gets("eod") == "zero";
		src->poison = 0x3C;
		d = lha_decoder_new(dt, SimCompressed::cb, src, declared);
		return d != nullptr;
	}
	void step(size_t k) {
		if (!d) return;
		Bytes buf(k + 1);
		size_t n = lha_decoder_read(d, buf.data(), k);
		if (n <= k) got.insert(got.end(), buf.begin(), buf.begin() + (long) n);
	}
	void release() {
		if (d) lha_decoder_free(d);
		d = nullptr;
		delete src; src = nullptr;
		delete data; data = nullptr;
	}
	bool consistent() const { return got.size() <= ref.size() && (got.empty() || memcmp(got.data(), ref.data(), got.size()) == 0); }
};

// ---------------------------------------------------------------- C14

struct C14 : Scenario {
	const char *property() const override { return "C14"; }
	uint64_t total_runs(uint64_t, const std::string &tier) override { return tier == "quick" ? 120000 : 6000000; }
	const char *nontrivial_rule() const override {
		return "a run is one (method, compressed stream incl. corruption/truncation, declared length, end-of-data flavour, "
		       "read-size history, monitor attach point); non-trivial = at least 1 byte produced over at least 2 read calls; "
		       "distinct = distinct trace hash over every callback request and every API result";
	}
	void describe(std::string &real, std::string &stub, std::string &assume) const override {
		real = "lib/lha_decoder.c and all 14 decoders, lib/crc16.c (unmodified, ASan+UBSan subset)";
		stub = "compressed-data source (SimCompressed on the LHADecoderCallback seam), progress callback recorder";
		assume = "callback never answers short in mid-stream (not covered by any listed property); declared length <= 1 MiB";
	}
	Plan generate(uint64_t seed, uint64_t run, const std::string &) override {
		Rng rng(seed, 14, run);
		Plan p;
		p.scenario = "decoder_history";
		gen_stream(rng, p, false);
		if (p.geti("declared") > (1 << 20)) p.seti("declared", 1 << 20);
		gen_reads(rng, p);
		// the monitor attached a second time later on (same recorder): nothing is announced twice, nothing is left out
		if (p.geti("monitor_at", -1) >= 0 && rng.chance(1, 4)) p.seti("monitor_again", p.geti("monitor_at") + (int64_t) rng.below(p.reads.size() + 1 - (size_t) p.geti("monitor_at")));
		if (rng.chance(1, 40)) {
			// a declared length of 2^32 and around it (beyond what can be decoded here: only the first blocks are read):
			// block arithmetic must not be done in 32 bits
			p.scenario = "huge_declared";
			static const char *sm[] = {"-lh0-", "-lz4-", "-pm0-", "-lh5-", "-lz5-", "-lh1-"};
			p.sets("method", sm[rng.below(3)]);
			p.stream.resize(20000 + rng.below(60000));
			for (size_t i = 0; i < p.stream.size(); ++i) p.stream[i] = (uint8_t) (i * 7 + (i >> 8));
			static const int64_t hd[] = {4294967296LL, 4294967296LL + 5, 4294967296LL - 2047, 4294967296LL - 1, 8589934592LL, 4294967296LL + 4096, 4294967295LL - 4096, 6442450944LL};
			p.seti("declared", hd[rng.below(8)]);
			p.reads.clear();
			for (int i = 0; i < 6; ++i) p.reads.push_back(1 + (uint32_t) rng.below(9000));
			p.seti("monitor_at", 0);
			p.cfg.erase("monitor_again");
			return p;
		}
		if (rng.chance(1, 4)) {
			p.seti("companion", 1);
			p.seti("comp_free_at", (int64_t) rng.below(p.reads.size() + 2));
			p.seti("comp_step", 1 + (int64_t) rng.below(300));
		}
		return p;
	}
	RunResult execute(const Plan &p, Plan *) override {
		begin_run(p);
		RunResult res;
		std::string method = p.gets("method");
		LHADecoderType *dt = lha_decoder_for_name((char *) method.c_str());
		if (!dt) { res.fail("C14.no_decoder", "no_decoder", "no decoder for " + method); return res; }
		size_t declared = (size_t) p.geti("declared");
		bool zero = p.gets("eod") == "zero";
		if (p.scenario == "huge_declared") {
			SimCompressed src;
			src.data = &p.stream;
			MonRec mon;
			g_sim.budget = g_sim.steps + 1000000;
			LibScope ls("huge");
			LHADecoder *d = lha_decoder_new(dt, SimCompressed::cb, &src, declared);
			if (!d) { res.fail("C14.new", "new", "lha_decoder_new failed"); return res; }
			lha_decoder_monitor(d, mon_cb, &mon);
			size_t got = 0;
			for (auto k : p.reads) {
				Bytes buf(k);
				size_t n = lha_decoder_read(d, buf.data(), k);
				got += n;
				++res.ops;
				if (n < k) break;
			}
			lha_decoder_free(d);
			for (size_t i = 0; i < mon.calls.size() && res.ok; ++i) {
				if (mon.calls[i].first != i) res.fail("C14.monitor_sequence", "monitor_sequence", strf("callback %zu reported block %u", i, mon.calls[i].first));
				else if (mon.calls[i].second != mon.calls[0].second) res.fail("C14.monitor_total", "monitor_total", "announced total changed between callbacks");
				else if (mon.calls[i].first > mon.calls[i].second)
					res.fail("C14.monitor_final", "monitor_beyond_total", strf("declared length %zu: block %u reported against an announced total of %u after %zu bytes", declared, mon.calls[i].first, mon.calls[i].second, got));
			}
			if (res.ok && mon.calls.empty()) res.fail("C14.monitor_sequence", "monitor_never", "monitor attached but never called");
			// not even one block's worth of the declared length has been produced: the announced total cannot have been reached
			if (res.ok && !mon.calls.empty() && got + (1u << 20) < declared && mon.calls.back().first >= mon.calls.back().second && got > 0)
				res.fail("C14.monitor_final", "monitor_total_reached_early", strf("declared length %zu, %zu bytes returned, yet the monitor already stands at block %u of %u", declared, got, mon.calls.back().first, mon.calls.back().second));
			count("kind.declared_length_around_2^32");
			res.nontrivial = got > 0;
			trace_u64(got);
			for (auto &c : mon.calls) { trace_u64(c.first); trace_u64(c.second); }
			res.trace = finish_trace();
			return res;
		}
		jmp_buf jb;
		t_budget_jb = &jb;
		g_sim.budget = 64 + 4 * p.stream.size() + 4 * declared + 16 * p.reads.size();
		if (p.geti("companion", 0)) g_sim.budget = 2 * g_sim.budget + 200000;   // the companion's requests count as well
		if (setjmp(jb) != 0) {
			t_inlib = 0;
			RunResult b;
			b.fail("C14.budget", "budget", "decoder asked its source more often than the step budget allows");
			b.trace = finish_trace();
			return b;
		}
		// reference: one maximal read
		Bytes ref(declared + 1);
		size_t r;
		{
			SimCompressed src;
			src.data = &p.stream;
			src.zero_flavour = zero;
			LibScope ls("ref");
			LHADecoder *d = lha_decoder_new(dt, SimCompressed::cb, &src, declared);
			if (!d) { res.fail("C14.new", "new", "lha_decoder_new failed"); return res; }
			r = lha_decoder_read(d, ref.data(), declared + 1);
			if (r > declared) res.fail("C14.exceeds_declared", "exceeds_declared", strf("single read returned %zu > declared %zu", r, declared));
			size_t again = r <= declared ? lha_decoder_read(d, ref.data() + r, declared + 1 - r) : 0;
			if (again != 0) res.fail("C14.not_maximal", "not_maximal", strf("second read after a short maximal read returned %zu", again));
			lha_decoder_free(d);
		}
		if (!res.ok) { t_budget_jb = nullptr; res.trace = finish_trace(); return res; }
		ref.resize(r);
		trace_u64(r);
		// history
		SimCompressed src;
		src.data = &p.stream;
		src.zero_flavour = zero;
		src.poison = 0x5A;
		MonRec mon;
		int64_t monitor_at = p.geti("monitor_at", -1);
		bool attached = false;
		Bytes got;
		{
			LibScope ls("history");
			LHADecoder *d = lha_decoder_new(dt, SimCompressed::cb, &src, declared);
			if (!d) { res.fail("C14.new", "new", "lha_decoder_new failed"); return res; }
			Companion comp;
			bool with_comp = p.geti("companion", 0) != 0 && comp.make(dt, p);
			size_t comp_free_at = (size_t) p.geti("comp_free_at", 0), comp_step = (size_t) p.geti("comp_step", 16);
			if (with_comp) count("kind.companion_decoder");
			uint16_t crc = 0;
			bool ended = false;
			Bytes buf;
			for (size_t i = 0; i <= p.reads.size() && res.ok; ++i) {
				if (with_comp && comp.d) {
					if (i >= comp_free_at) {
						if (!comp.consistent()) res.fail("C14.decoder_independence", "independence:companion", "a second decoder of the same method, read in between, did not yield the bytes it yields alone");
						comp.release();
					} else comp.step(comp_step);
				}
				if (!attached && monitor_at >= 0 && (size_t) monitor_at == i) {
					lha_decoder_monitor(d, mon_cb, &mon);
					attached = true;
				} else if (attached && p.geti("monitor_again", -1) >= 0 && (size_t) p.geti("monitor_again") == i) {
					lha_decoder_monitor(d, mon_cb, &mon);
					count("probe.monitor_attached_again");
				}
				if (i == p.reads.size()) break;
				size_t k = p.reads[i];
				// the caller's buffer starts at an odd address every other time (a caller decoding into out + pos)
				buf.assign(k + 2, 0xEE);
				uint8_t *dst = buf.data() + (i & 1);
				size_t n = lha_decoder_read(d, dst, k);
				++res.ops;
				trace_u64(k);
				trace_u64(n);
				if (n > k) { res.fail("C14.read_exceeds_request", "read_exceeds_request", strf("read(%zu) returned %zu", k, n)); break; }
				if (dst[k] != 0xEE) { res.fail("C14.read_overrun", "read_overrun", strf("read(%zu) wrote past the buffer", k)); break; }
				if (i & 1) buf.erase(buf.begin());
				if (ended && n != 0) res.fail("C14.resumes_after_end", "resumes_after_end", strf("read %zu returned %zu bytes after an earlier short read", i, n));
				if (n < k) ended = true;
				got.insert(got.end(), buf.begin(), buf.begin() + n);
				crc = crc16_bitwise(crc, buf.data(), n);
				size_t len = lha_decoder_get_length(d);
				uint16_t c = lha_decoder_get_crc(d);
				// the moment the caller holds the last declared byte, the monitor must have been told about the last block
				if (attached && !mon.calls.empty() && n > 0 && got.size() == declared && ref.size() == declared
				    && mon.calls.back().first != mon.calls.back().second)
					res.fail("C14.monitor_final", "monitor_lags", strf("all %zu declared bytes have been returned but the monitor has only been told block %u of %u", declared, mon.calls.back().first, mon.calls.back().second));
				if (len != got.size()) res.fail("C14.length", "length", strf("get_length %zu but %zu bytes returned so far", len, got.size()));
				if (c != crc) res.fail("C14.crc", "crc", strf("get_crc %04x but CRC-16 of the %zu bytes returned is %04x", c, got.size(), crc));
			}
			lha_decoder_free(d);
			if (with_comp && comp.d) {
				if (res.ok && !comp.consistent()) res.fail("C14.decoder_independence", "independence:companion", "a second decoder of the same method, read in between, did not yield the bytes it yields alone");
				comp.release();
			}
		}
		t_budget_jb = nullptr;
		if (res.ok) {
			if (got.size() > declared) res.fail("C14.exceeds_declared", "exceeds_declared", strf("%zu bytes returned, declared %zu", got.size(), declared));
			uint64_t asked = 0;
			for (auto k : p.reads) asked += k;
			bool complete_history = asked > declared;   // the history asked for more than could exist
			if (got.size() > ref.size() || (got.size() && memcmp(got.data(), ref.data(), got.size()) != 0))
				res.fail("C14.split_invariance", "split_invariance",
				         strf("history output (%zu bytes) is not a prefix of the single-read output (%zu bytes)", got.size(), ref.size()));
			else if (complete_history && got.size() != ref.size())
				res.fail("C14.split_invariance", "split_total",
				         strf("history read to the end and got %zu bytes, a single read gets %zu", got.size(), ref.size()));
			// monitor
			if (res.ok && attached && !mon.calls.empty()) {
				unsigned total = mon.calls[0].second;
				for (size_t i = 0; i < mon.calls.size() && res.ok; ++i) {
					if (mon.calls[i].second != total) res.fail("C14.monitor_total", "monitor_total", "announced total changed between callbacks");
					if (mon.calls[i].first != i) res.fail("C14.monitor_sequence", "monitor_sequence", strf("callback %zu reported block %u", i, mon.calls[i].first));
				}
				if (res.ok && complete_history && ref.size() == declared && mon.calls.back().first != total)
					res.fail("C14.monitor_final", "monitor_final", strf("stream decoded completely but last block %u != total %u", mon.calls.back().first, total));
				if (res.ok && mon.calls.back().first > total)
					res.fail("C14.monitor_final", "monitor_beyond_total", "block count exceeded the announced total");
			}
			if (res.ok && attached && mon.calls.empty())
				res.fail("C14.monitor_sequence", "monitor_never", "monitor attached but never called (block 0 is due at once)");
		}
		res.nontrivial = got.size() >= 1 && p.reads.size() >= 2;
		count("kind.method." + method);
		count(std::string("kind.eod.") + (zero ? "zero" : "short"));
		if (p.geti("nfaults")) count("fault.D-BYTE", (uint64_t) p.geti("nfaults"));
		if (p.gets("cut") == "1") count("fault.S-EOF");
		if (ref.size() < declared) count("probe.decoder_stopped_short");
		if (ref.size() == declared && declared > 0) count("probe.decoded_to_declared");
		if (attached) count("probe.monitor_attached");
		trace_u64(got.size());
		res.trace = finish_trace();
		return res;
	}
};
REGISTER_SCENARIO(C14);

// ---------------------------------------------------------------- C09

struct C09 : Scenario {
	const char *property() const override { return "C09"; }
	uint64_t total_runs(uint64_t, const std::string &tier) override { return tier == "quick" ? 100000 : 5000000; }
	const char *nontrivial_rule() const override {
		return "a run is one (method, byte string: corrupted/cut real encoder output, random or constant bytes, declared length, "
		       "read schedule, end-of-data flavour, API vs direct init/read drive); non-trivial = the decoder consumed at "
		       "least one byte and returned from at least 2 read calls; distinct = distinct trace hash";
	}
	bool crash_is_violation() const override { return true; }
	void describe(std::string &real, std::string &stub, std::string &assume) const override {
		real = "lib/lha_decoder.c, all decoder translation units (unmodified), under ASan + UBSan bounds/null/pointer-overflow";
		stub = "compressed-data source; for the direct drive: two exact-size heap blocks (extra_size, max_read) so ASan red zones sit at both ends";
		assume = "an overflow that stays inside one allocation and is not an array with static bounds is invisible to ASan/UBSan";
	}
	Plan generate(uint64_t seed, uint64_t run, const std::string &) override {
		Rng rng(seed, 9, run);
		Plan p;
		p.scenario = rng.chance(1, 3) ? "direct" : "api";
		if (rng.chance(1, 400)) {
			// S-GAP enumerated: one real stream (several KiB of output, so that tables are re-sent), the source handing over
			// 1-4 bytes per request, and for EVERY request index one decode in which exactly that request gets nothing
			p.scenario = "gap_sweep";
			static const char *gm[] = {"-pm2-", "-pm2-", "-lh5-", "-lh1-", "-lz5-", "-lh7-", "-pm1-", "-lzs-"};
			std::string method = gm[rng.below(8)];
			p.sets("method", method);
			auto pls = payloads_for(method);
			bool tabled = method == "-pm2-" || method == "-lh5-" || method == "-lh7-";
			if (tabled && rng.chance(1, 2)) {
				// table headers with boundary values followed by a long run of arbitrary bits: decoding goes on past the points
				// at which tables are sent again
				gen_structured(rng, method, p.stream);
				if (method == "-pm2-" && rng.chance(2, 3)) {
					// a code tree holding the single code 0 (every symbol is "one byte from the history list", a few bits each):
					// ANY bits that follow decode, so the stream runs through all the points (1, 2, 4, 8 KiB ...) at which -pm2-
					// may send its tables again, with whatever the bits say there
					BitW w;
					w.put((uint32_t) rng.below(2), 1);
					w.put(1, 5);
					w.put(0, 3);
					w.finish();
					p.stream = w.out;
					p.seti("tails", 8);   // eight different continuations of this header, each with its own sweep
				}
				size_t tail = 1200 + rng.below(2500);
				for (size_t i = 0; i < tail; ++i) p.stream.push_back(rng.byte());
				p.seti("declared", 9000);
				p.seti("short", 1 + (int64_t) rng.below(4));
				p.sets("eod", "short");
				p.sets("payload", "structured");
				return p;
			}
			if (!pls.empty()) {
				const Payload *pl = pls[0];
				for (auto *q : pls) if (q->plain.size() > pl->plain.size()) pl = q;
				size_t n = std::min<size_t>(pl->plain.size(), 9000);
				p.stream.assign(pl->comp.begin(), pl->comp.begin() + pl->need((uint32_t) n));
				if (p.stream.size() > 6000) p.stream.resize(6000);
				p.seti("declared", (int64_t) n);
				p.seti("short", 1 + (int64_t) rng.below(4));
				p.sets("eod", "short");
				return p;
			}
			p.scenario = "api";
		}
		gen_stream(rng, p, true);
		// -lhx- has 2 MiB of state: keep the expensive cases rarer
		if (p.scenario == "api") gen_reads(rng, p);
		else p.seti("maxcalls", 1 + (int64_t) rng.below(3000));
		// S-SHORT: the source hands over at most 1-3 bytes per request although more are there (a caller-supplied callback may)
		if (rng.chance(1, 5)) p.seti("short", 1 + (int64_t) rng.below(3));
		// a second decoder of the same method alive at the same time, released (with its source) half-way
		if (p.scenario == "api" && rng.chance(1, 5)) { p.seti("companion", 1); p.seti("comp_free_at", (int64_t) rng.below(p.reads.size() + 2)); p.seti("comp_step", 1 + (int64_t) rng.below(300)); }
		return p;
	}
	RunResult execute(const Plan &p, Plan *) override {
		begin_run(p);
		RunResult res;
		std::string method = p.gets("method");
		LHADecoderType *dt = lha_decoder_for_name((char *) method.c_str());
		if (!dt) { res.fail("C09.no_decoder", "no_decoder", "no decoder for " + method); return res; }
		size_t declared = (size_t) p.geti("declared");
		bool zero = p.gets("eod") == "zero";
		SimCompressed src;
		src.data = &p.stream;
		src.zero_flavour = zero;
		src.short_max = (size_t) p.geti("short", 0);
		if (src.short_max) count("fault.S-SHORT");
		jmp_buf jb;
		t_budget_jb = &jb;
		g_sim.budget = 4096 + 8 * p.stream.size() + 8 * declared + 16 * p.reads.size() + 64 * (uint64_t) p.geti("maxcalls");
		if (src.short_max) g_sim.budget *= 8;
		if (p.geti("companion", 0)) g_sim.budget = g_sim.budget * 2 + 200000;
		if (setjmp(jb) != 0) {
			t_inlib = 0;
			RunResult b;
			b.fail("C09.budget", "budget", "decoder asked its source more often than the step budget allows");
			b.trace = finish_trace();
			return b;
		}
		uint64_t calls = 0;
		if (p.scenario == "gap_sweep") {
			g_sim.budget = ~0ULL;
			uint64_t evals = 0;
			// how many requests does the undisturbed decode make?
			for (int64_t tl = 0; tl < std::max<int64_t>(1, p.geti("tails", 1)) && res.ok; ++tl) {
			Bytes stream_t = p.stream;
			if (tl > 0) {
				// another continuation behind the same two header bytes
				Rng tr(p.seed, 909, p.run * 16 + (uint64_t) tl);
				for (size_t i = 2; i < stream_t.size(); ++i) stream_t[i] = tr.byte();
			}
			uint64_t total_calls = 0;
			for (int64_t g = -1; g < (int64_t) total_calls || g < 0; ++g) {
				SimCompressed s2;
				s2.data = &stream_t;
				s2.short_max = (size_t) p.geti("short", 1);
				s2.gap_at = g;
				LibScope ls("gap");
				LHADecoder *d = lha_decoder_new(dt, SimCompressed::cb, &s2, declared);
				if (!d) break;
				Bytes buf(1500);
				size_t produced = 0;
				for (int r = 0; r < 64; ++r) {
					size_t n = lha_decoder_read(d, buf.data(), buf.size());
					if (n > buf.size()) { res.fail("C09.read_exceeds_request", "read_exceeds_request", "read returned more than asked"); break; }
					if (n == 0) break;
					produced += n;
				}
				if (g < 0) { count("max.gap_sweep_bytes_decoded", 0); if (produced > g_sim.counters["max.gap_sweep_bytes_decoded"]) g_sim.counters["max.gap_sweep_bytes_decoded"] = produced; if (getenv("VERIF_DEBUG_SWEEP")) fprintf(stderr, "sweep: %zu bytes decoded without a gap, %llu requests\n", produced, (unsigned long long) s2.calls); }
				lha_decoder_free(d);
				++evals;
				if (g < 0) total_calls = std::min<uint64_t>(s2.calls, 5000);
				if ((evals & 63) == 0) sim_watchdog_kick();
			}
			}
			t_budget_jb = nullptr;
			g_sim.counters["evals"] = evals;
			count("fault.S-GAP", evals);
			count("kind.method." + method);
			count("kind.drive.gap_sweep");
			res.ops = evals;
			res.nontrivial = evals > 2;
			trace_u64(evals);
			res.trace = finish_trace();
			return res;
		}
		if (p.scenario == "direct") {
			void *extra = malloc(dt->extra_size ? dt->extra_size : 1);
			memset(extra, 0, dt->extra_size);
			uint8_t *out = (uint8_t *) malloc(dt->max_read ? dt->max_read : 1);
			LibScope ls("direct");
			if (!dt->init || dt->init(extra, SimCompressed::cb, &src)) {
				int64_t maxcalls = p.geti("maxcalls", 100);
				for (int64_t i = 0; i < maxcalls; ++i) {
					size_t n = dt->read(extra, out);
					++calls;
					trace_u64(n);
					if (n > dt->max_read) { res.fail("C09.read_exceeds_max", "read_exceeds_max", strf("read callback returned %zu > max_read %zu", n, dt->max_read)); break; }
					if (n == 0) break;
				}
				if (dt->free) dt->free(extra);
			}
			free(out);
			free(extra);
		} else {
			LibScope ls("api");
			LHADecoder *d = lha_decoder_new(dt, SimCompressed::cb, &src, declared);
			if (d) {
				Companion comp;
				bool with_comp = p.geti("companion", 0) != 0 && comp.make(dt, p);
				size_t comp_free_at = (size_t) p.geti("comp_free_at", 0), comp_step = (size_t) p.geti("comp_step", 16);
				if (with_comp) count("kind.companion_decoder");
				for (size_t i = 0; i < p.reads.size(); ++i) {
					if (with_comp && comp.d) { if (i >= comp_free_at) comp.release(); else comp.step(comp_step); }
					size_t k = p.reads[i];
					uint8_t *buf = (uint8_t *) malloc(k ? k : 1);   // exact size: red zone right behind
					size_t n = lha_decoder_read(d, buf, k);
					++calls;
					trace_u64(n);
					free(buf);
					if (n > k) { res.fail("C09.read_exceeds_request", "read_exceeds_request", strf("read(%zu) returned %zu", k, n)); break; }
				}
				lha_decoder_free(d);
				comp.release();
			}
		}
		t_budget_jb = nullptr;
		res.ops = calls;
		res.nontrivial = src.pos > 0 && calls >= 2;
		count("kind.method." + method);
		count("kind.drive." + p.scenario);
		if (p.geti("nfaults")) count("fault.D-BYTE", (uint64_t) p.geti("nfaults"));
		if (p.gets("cut") == "1") count("fault.S-EOF");
		if (p.gets("payload") == "random") count("kind.random_bytes");
		if (p.gets("payload") == "structured") count("kind.structured_table_headers");
		res.trace = finish_trace();
		return res;
	}
};
REGISTER_SCENARIO(C09);
