#include "driver.h"
#include <cerrno>

std::string HeaderObs::str() const {
	if (null) return "NULL";
	return strf("[L%u %s os=%02x path=%s name=%s%s%s len=%llu packed=%llu crc=%04x t=%u flags=%x perms=%o]", level,
	            printable(method).c_str(), os, has_path ? printable(path).c_str() : "(null)",
	            has_name ? printable(name).c_str() : "(null)", has_target ? " -> " : "",
	            has_target ? printable(target).c_str() : "", (unsigned long long) length, (unsigned long long) packed,
	            crc, timestamp, flags, perms);
}

HeaderObs observe_header(const LHAFileHeader *h) {
	HeaderObs o;
	if (!h) return o;
	o.null = false;
	if (h->path) { o.has_path = true; o.path = h->path; }
	if (h->filename) { o.has_name = true; o.name = h->filename; }
	if (h->symlink_target) { o.has_target = true; o.target = h->symlink_target; }
	o.method = h->compress_method;
	o.length = h->length;
	o.packed = h->compressed_length;
	o.crc = h->crc;
	o.level = h->header_level;
	o.os = h->os_type;
	o.flags = h->extra_flags;
	o.perms = (h->extra_flags & LHA_FILE_UNIX_PERMS) ? h->unix_perms : 0;
	o.uid = (h->extra_flags & LHA_FILE_UNIX_UID_GID) ? h->unix_uid : 0;
	o.gid = (h->extra_flags & LHA_FILE_UNIX_UID_GID) ? h->unix_gid : 0;
	o.os9 = (h->extra_flags & LHA_FILE_OS9_PERMS) ? h->os9_perms : 0;
	o.timestamp = h->timestamp;
	Fnv f;
	f.add(h->raw_data, h->raw_data_len);
	if (h->unix_username) f.str(h->unix_username);
	if (h->unix_group) f.str(h->unix_group);
	o.raw_digest = strf("%016llx", (unsigned long long) f.h);
	return o;
}

static void mon_count(unsigned, unsigned, void *u) {
	++*(int *) u;
	sim_seam("progress", 0);
}

static void mkdir_p(SimFS *fs, const std::string &path_in) {
	// parents of 'path' (harness-side, like the tool's make_parent_directories)
	std::string path = path_in;
	while (!path.empty() && path.back() == '/') path.pop_back();
	size_t i = 0;
	while ((i = path.find('/', i + 1)) != std::string::npos) {
		std::string par = path.substr(0, i);
		if (par.empty()) continue;
		int err;
		SimStat st;
		int save = fs->euid;
		if (fs->sys_stat(par, st, err, true) != 0 && err == ENOENT) fs->sys_mkdir(par, 0755, err);
		fs->euid = save;
	}
}

DriveOut drive_reader(const Task &t, const Bytes &archive, const DriveOpts &o) {
	DriveOut out;
	if (!g_baton.active) sim_watchdog_kick();
	SimSource *src = new SimSource;   // heap: survives a budget longjmp
	src->kind = t.kind;
	src->data = &archive;
	src->trunc = t.trunc;
	src->errat = t.errat;
	src->skipfail = t.skipfail;
	src->seekerr = t.seekerr;
	src->skippast = t.skippast;
	src->endless = t.endless;
	src->prepos = t.prepos;
	src->erronce = t.erronce;
	src->errerrno = t.errerrno;
	src->task = t_task;
	g_sim.ledger = o.ledger;
	g_sim.fail_at = o.fail_alloc;
	g_sim.fail_fired = false;
	g_sim.nallocs = 0;
	uint64_t saved_budget = g_sim.budget;
	if (o.budget != ~0ULL) g_sim.budget = g_sim.steps + o.budget;
	jmp_buf jb;
	jmp_buf *saved_jb = t_budget_jb;
	int saved_inlib = t_inlib;
	int handles_before = g_sim.open_handles;
	t_budget_jb = &jb;
	if (setjmp(jb) != 0) {
		t_inlib = saved_inlib;
		t_budget_jb = saved_jb;
		DriveOut *po = &out;
		po->budget = true;
		po->budget_api = g_sim.budget_where;
		po->src_reads = src->reads; po->src_skips = src->skips; po->src_bytes = src->bytes;
		g_sim.budget = saved_budget;
		g_sim.ledger = false;
		return *po;
	}
	LHAInputStream *st = nullptr;
	LHAReader *rd = nullptr;
	bool fired_before;
	{
		fired_before = g_sim.fail_fired;
		LibScope ls("stream_new");
		if (o.by_name) {
			// several readers may open archives by name at the same time: each path has its own source
			int bino = g_sim.fs ? g_sim.fs->lookup(o.by_name_path, true) : -1;
			if (bino >= 0 && bino != g_sim.archive_ino) g_sim.by_name_srcs[bino] = src;
			else g_sim.archive_src = src;
			st = lha_input_stream_from((char *) o.by_name_path.c_str());
		} else st = src->open_stream();
	}
	if (!st) {
		out.open_failed = true;
		if (!fired_before && !g_sim.fail_fired && !o.by_name) out.alloc_fail_detail = "stream creation failed without an injected fault";
		// a FILE the caller opened is the caller's to close; one the library opened by name is the library's
		if (!o.by_name && src->fp && !src->closed) fclose(src->fp);
		if (o.by_name) {
			// the chained idiom of callers that do not look at the stream first (src/main.c is one): a reader made from the
			// failed stream, released at once
			LibScope ls("reader_new");
			LHAReader *r0 = lha_reader_new(nullptr);
			if (r0) lha_reader_free(r0);
		}
	}
	if (st) {
		fired_before = g_sim.fail_fired;
		{
			LibScope ls("reader_new");
			rd = lha_reader_new(st);
		}
		if (!rd && !g_sim.fail_fired) out.alloc_fail_detail = "lha_reader_new failed without an injected fault";
		if (rd && g_sim.fail_fired && !fired_before) { out.alloc_fail_misreported = true; out.alloc_fail_detail = "lha_reader_new succeeded although its allocation failed"; out.leak_sig = "afail:reader_new"; }
	}
	int pending_dirs = 0, deferred = 0;
	int state = 0;   // 0 start, 1 normal, 2 fake dir, 3 deferred link, 4 end
	HeaderObs cur;
	if (rd) {
		lha_reader_set_dir_policy(rd, (LHAReaderDirPolicy) t.policy);
		for (size_t i = 0; i < t.ops.size(); ++i) {
			if (o.abandon_after >= 0 && (int64_t) i >= o.abandon_after) break;
			Op op = t.ops[i];
			if (!cur.null && cur.length > o.max_decode && (op.kind == "check" || op.kind == "readall" || op.kind == "extract")) {
				// work is bounded by the declared length, as stated; gigabyte declarations are exercised with bounded reads
				op.kind = "read";
				op.arg = 65536;
				count("probe.huge_declared_length_bounded_read");
			}
			Obs ob;
			ob.kind = op.kind;
			fired_before = g_sim.fail_fired;
			g_sim.cur_state = state;
			bool failed_value = false;
			if (op.kind == "next") {
				LHAFileHeader *h;
				{ LibScope ls("next"); h = lha_reader_next_file(rd); }
				ob.hdr = observe_header(h);
				int fake;
				{ LibScope ls("isfake"); fake = lha_reader_current_is_fake(rd); }
				ob.result = fake;
				if (h) {
					std::string why;
					if (!c11_header_ok(h, why)) { out.c11_bad = true; out.c11_why = why; }
					if (fake && ob.hdr.is_link()) { state = 3; --deferred; }
					else if (fake) { state = 2; --pending_dirs; }
					else state = 1;
				} else state = state == 0 && false ? 0 : 4;
				cur = ob.hdr;
				// end of archive may legitimately be preceded by entries the reader re-presents on its own
				failed_value = h == nullptr || fake;
				trace_str(ob.hdr.str());
			} else if (op.kind == "isfake") {
				{ LibScope ls("isfake"); ob.result = lha_reader_current_is_fake(rd); }
				trace_u64((uint64_t) ob.result);
				failed_value = true;
			} else if (op.kind == "read" || op.kind == "readall") {
				size_t k = (size_t) op.arg;
				ob.asked = k;
				Bytes buf(k + 1, 0xEE);
				bool all = op.kind == "readall";
				size_t rounds = 0;
				failed_value = true;
				do {
					size_t n;
					{ LibScope ls("read"); n = lha_reader_read(rd, buf.data(), k); }
					if (n > k) n = k + 1;   // reported by the caller's oracle (never legal)
					ob.data.insert(ob.data.end(), buf.begin(), buf.begin() + std::min(n, k));
					if (n > k) { ob.result = -1; break; }
					if (n) failed_value = false;
					if (n == 0) break;
					++rounds;
				} while (all && k > 0 && rounds < 100000);
				Fnv f; f.bytes(ob.data);
				trace_u64(f.h);
			} else if (op.kind == "check") {
				int calls = 0;
				{ LibScope ls("check"); ob.result = lha_reader_check(rd, op.mon ? mon_count : nullptr, &calls); }
				ob.monitor_calls = calls;
				trace_u64((uint64_t) ob.result);
				failed_value = ob.result == 0;
			} else if (op.kind == "extract") {
				std::string target;
				if (!cur.null) {
					std::string rel = cur.path + cur.name;
					while (!rel.empty() && rel[0] == '/') rel.erase(0, 1);
					target = (t.dir.empty() ? std::string("") : t.dir + "/") + rel;
				}
				ob.target = target;
				if (g_sim.fs && !cur.null) {
					int ino = g_sim.fs->lookup(op.arg == 1 ? cur.full() : target, true);
					ob.existed_before = ino >= 0;
					if (op.arg != 1) mkdir_p(g_sim.fs, target);
				}
				int calls = 0;
				size_t log_before = g_sim.fs ? g_sim.fs->log.size() : 0;
				{
					LibScope ls("extract");
					ob.result = lha_reader_extract(rd, op.arg == 1 || cur.null ? nullptr : (char *) target.c_str(),
					                               op.mon ? mon_count : nullptr, &calls);
				}
				ob.monitor_calls = calls;
				if (g_sim.fs && !cur.null) {
					std::string where = op.arg == 1 ? cur.full() : target;
					int ino = where.empty() ? -1 : g_sim.fs->lookup(where, false);
					if (ino >= 0) {
						const Inode &n = g_sim.fs->nodes[ino];
						ob.post_type = n.type;
						ob.post_data = n.data;
						ob.post_target = n.target;
						ob.post_mode = n.mode;
						ob.post_mtime = n.mtime;
					}
					for (size_t li = log_before; li < g_sim.fs->log.size(); ++li) {
						// refusals that matter: a mutating call that failed, or an injected fault (a lookup that finds nothing is no refusal)
						const FsLog &fl = g_sim.fs->log[li];
						if (fl.err && (fl.mutating || fl.injected)) ob.fs_errors++;
					}
				}
				if (ob.result && state == 1 && !cur.null) {
					if (cur.is_dir() && !ob.existed_before && t.policy != LHA_READER_DIR_PLAIN) ++pending_dirs;
					if (cur.is_link()) {
						const std::string &tg = cur.target;
						bool dang = !tg.empty() && tg[0] == '/';
						for (auto &c : split_ch(tg, '/')) if (c == "..") dang = true;
						if (dang) ++deferred;
					}
				}
				trace_u64((uint64_t) ob.result);
				failed_value = ob.result == 0;
			}
			ob.api_state = state;
			if (g_sim.fail_fired && !fired_before) count(std::string("probe.alloc_failure_during.") + op.kind);
			if (ob.kind == "next" && !ob.hdr.null && ob.result) count(ob.hdr.is_link() ? "probe.deferred_symlink_represented" : "probe.directory_represented");
			if (g_sim.fail_fired && !fired_before && !failed_value && !out.alloc_fail_misreported) {
				out.alloc_fail_misreported = true;
				out.alloc_fail_detail = strf("op %zu (%s) reported success although allocation #%lld made during it failed: %s",
				                             i, op.kind.c_str(), (long long) o.fail_alloc, ob.hdr.str().c_str());
				out.leak_sig = "afail:" + op.kind;
			}
			out.obs.push_back(ob);
			if (o.stop_at_null && op.kind == "next" && ob.hdr.null) break;
		}
	}
	// release everything
	g_sim.cur_state = state;
	if (rd) { LibScope ls("reader_free"); lha_reader_free(rd); }
	if (st) { LibScope ls("stream_free"); lha_input_stream_free(st); }
	if (!o.by_name && src->fp && !src->closed) fclose(src->fp);   // FILE kinds: the caller owns the FILE
	out.freed = true;
	t_budget_jb = saved_jb;
	g_sim.budget = saved_budget;
	out.src_reads = src->reads; out.src_skips = src->skips; out.src_bytes = src->bytes; out.src_seeks = src->seeks;
	out.peak_heap = g_sim.peak_bytes;
	out.open_handles_after = g_sim.open_handles - handles_before;
	if (o.by_name && src->fp && !src->closed) fclose(src->fp);   // measured as a leaked handle above; tidy the simulator
	if (o.ledger) {
		for (auto &e : g_sim.live) {
			out.leaked_blocks++;
			out.leaked_bytes += e.second.size;
		}
		if (out.leaked_blocks) {
			// signature: where the surviving blocks were allocated and what the reader was doing when freed
			std::map<std::string, int> apis;
			for (auto &e : g_sim.live) apis[e.second.api]++;
			std::string where;
			for (auto &a : apis) where += (where.empty() ? "" : "+") + a.first;
			static const char *sn[] = {"start", "normal", "fake_dir", "deferred_link", "end"};
			std::string sig = std::string("leak:alloc_in=") + where + ":at_free=" + sn[state];
			if (pending_dirs > 0) sig += "+pending_dirs";
			if (deferred > 0) sig += "+deferred_links";
			if (out.leak_sig.empty()) out.leak_sig = sig;
			out.leak_detail = strf("%zu block(s), %zu bytes still allocated after lha_reader_free + lha_input_stream_free; %s",
			                       out.leaked_blocks, out.leaked_bytes, sig.c_str());
		}
		// leaked blocks are released here so that they do not accumulate in the worker
		std::vector<void *> ptrs;
		for (auto &e : g_sim.live) ptrs.push_back(e.first);
		g_sim.live.clear();
		g_sim.live_bytes = 0;
		for (void *p : ptrs) free(p);
	}
	g_sim.ledger = false;
	g_sim.fail_at = -1;
	delete src;
	return out;
}

Canon canonical(const Bytes &archive, uint64_t budget) {
	Canon c;
	Task t;
	t.kind = "FILE_SEEK";
	t.policy = LHA_READER_DIR_END_OF_DIR;
	// pass 1: headers + data; pass 2: verdicts
	for (int pass = 0; pass < 2; ++pass) {
		t.ops.clear();
		for (size_t i = 0; i < 300; ++i) {
			Op n; n.kind = "next"; t.ops.push_back(n);
			Op r; r.kind = pass == 0 ? "readall" : "check"; r.arg = 4096; t.ops.push_back(r);
		}
		DriveOpts o;
		o.budget = budget;
		o.stop_at_null = true;
		bool tracing = g_sim.tracing;
		g_sim.tracing = false;
		DriveOut d = drive_reader(t, archive, o);
		g_sim.tracing = tracing;
		if (d.budget) { c.ok = false; return c; }
		for (size_t i = 0; i + 1 < d.obs.size(); i += 2) {
			if (d.obs[i].hdr.null) break;
			if (pass == 0) { c.H.push_back(d.obs[i].hdr); c.B.push_back(d.obs[i + 1].data); }
			else c.V.push_back(d.obs[i + 1].result);
		}
	}
	if (c.V.size() != c.H.size()) c.ok = false;
	return c;
}
