// In-process runner for the real command-line tool (src/*.c, main renamed):
// simulated terminal (captured stdout/stderr), scripted stdin, exit() caught.
#include "sim.h"
#include <cerrno>
#include <cstdlib>

struct ScriptCookie { std::string data; size_t pos = 0; bool closed = false; };

static ssize_t script_read(void *c, char *buf, size_t n) {
	ScriptCookie *s = (ScriptCookie *) c;
	size_t k = std::min(n, s->data.size() - s->pos);
	memcpy(buf, s->data.data() + s->pos, k);
	s->pos += k;
	return (ssize_t) k;
}
static int script_close(void *c) { ((ScriptCookie *) c)->closed = true; return 0; }

// simulated terminal: captures what the tool prints, with a ceiling - a tool that prints without end does not return
struct TermCookie { std::string data; };
static const size_t TERM_CAP = 24u << 20;
static ssize_t term_write(void *c, const char *buf, size_t n) {
	TermCookie *t = (TermCookie *) c;
	t->data.append(buf, n);
	if (t->data.size() > TERM_CAP && t_budget_jb) {
		g_sim.budget_tripped = true;
		g_sim.budget_where = "terminal output without end";
		jmp_buf *jb = t_budget_jb;
		t_budget_jb = nullptr;
		longjmp(*jb, 1);
	}
	return (ssize_t) n;
}

CliResult run_cli(const std::vector<std::string> &args, const std::string &script, SimSource *stdin_src) {
	CliResult res;
	FILE *old_out = stdout, *old_err = stderr, *old_in = stdin;
	TermCookie *oc = new TermCookie, *ec = new TermCookie;
	cookie_io_functions_t tio = {nullptr, term_write, nullptr, nullptr};
	FILE *o = fopencookie(oc, "w", tio);
	FILE *e = fopencookie(ec, "w", tio);
	ScriptCookie *sc = nullptr;
	FILE *in;
	if (stdin_src) in = stdin_src->open_file();
	else {
		sc = new ScriptCookie;
		sc->data = script;
		cookie_io_functions_t io = {script_read, nullptr, nullptr, script_close};
		in = fopencookie(sc, "r", io);
	}
	// argv: mutable copies that outlive the run (options keep pointers into them)
	std::vector<char *> av;
	std::vector<std::vector<char>> store(args.size());
	for (size_t i = 0; i < args.size(); ++i) {
		store[i].assign(args[i].begin(), args[i].end());
		store[i].push_back('\0');
		av.push_back(store[i].data());
	}
	av.push_back(nullptr);

	stdout = o; stderr = e; stdin = in;
	jmp_buf exit_jb, budget_jb;
	int saved_inlib = t_inlib;
	const char *saved_api = g_sim.cur_api;
	volatile int status = 0;
	volatile int how = 0;   // 0 returned, 1 exit(), 2 budget
	g_sim.exit_jb = &exit_jb;
	t_budget_jb = &budget_jb;
	if (setjmp(exit_jb) == 0) {
		if (setjmp(budget_jb) == 0) {
			++t_inlib;
			g_sim.cur_api = "cli";
			status = lha_cli_main((int) args.size(), av.data());
		} else how = 2;
	} else { how = 1; status = g_sim.exit_status; }
	t_inlib = saved_inlib;
	g_sim.cur_api = saved_api;
	g_sim.exit_jb = nullptr;
	t_budget_jb = nullptr;
	fflush(stdout);
	fflush(stderr);
	stdout = old_out; stderr = old_err; stdin = old_in;
	fclose(o);
	fclose(e);
	if (stdin_src) {
		if (!stdin_src->closed && stdin_src->fp) fclose(stdin_src->fp);
	} else {
		if (!sc->closed) fclose(in);
		delete sc;
	}
	res.status = status & 0xff;   // what a parent process sees: the low eight bits of main's result or of exit()'s argument
	res.exited = how == 1;
	res.budget = how == 2;
	res.out.swap(oc->data);
	res.err.swap(ec->data);
	if (res.out.size() > TERM_CAP) res.out.resize(TERM_CAP);
	if (res.err.size() > TERM_CAP) res.err.resize(TERM_CAP);
	delete oc;
	delete ec;
	return res;
}
