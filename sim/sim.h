// Simulator runtime: the state behind the link-time wrappers (allocator and
// handle ledgers, simulated filesystem, clock, exit interception), simulated
// archive sources, the baton scheduler and the in-process CLI runner.
#pragma once
#include <csetjmp>
#include <cstdio>
#include <functional>
#include <unordered_map>
#include "plan.h"
#include "simfs.h"

extern "C" {
#include "lha_reader.h"
#include "lha_decoder.h"
#include "lha_input_stream.h"
#include "lha_file_header.h"
// internal entry points used by some scenarios (prototypes restated here)
typedef struct _LHABasicReader LHABasicReader;
LHABasicReader *lha_basic_reader_new(LHAInputStream *stream);
void lha_basic_reader_free(LHABasicReader *reader);
LHAFileHeader *lha_basic_reader_next_file(LHABasicReader *reader);
size_t lha_basic_reader_read_compressed(LHABasicReader *reader, void *buf, size_t buf_len);
int lha_cli_main(int argc, char *argv[]);
}

// ---------------------------------------------------------------- violations

struct Violation {
	std::string clause;    // e.g. "C14.split_invariance"
	std::string sig;       // stable signature for known-finding matching
	std::string detail;    // human-readable
};

struct RunResult {
	bool ok = true;
	Violation v;
	uint64_t trace = 0;        // trace hash: identity of the run
	bool nontrivial = false;
	uint64_t ops = 0;          // API operations executed ("simulated steps")
	void fail(const std::string &clause, const std::string &sig, const std::string &detail) {
		if (!ok) return;
		ok = false; v.clause = clause; v.sig = sig; v.detail = detail;
	}
};

// ---------------------------------------------------------------- sources

class SimSource {
public:
	std::string kind;          // FILE_SEEK FILE_PIPE FILE_HALFSEEK CB_SKIP CB_NOSKIP
	const Bytes *data = nullptr;
	size_t pos = 0;
	int64_t trunc = -1, errat = -1, skipfail = -1, prepos = 0;
	int seekerr = 0, skippast = 0, endless = 0, erronce = 0, errerrno = 5;
	uint64_t reads = 0, skips = 0, bytes = 0, eof_reads = 0, seeks = 0;
	bool closed = false, err_fired = false, eof_hit = false;
	int fd = -1;               // simulated descriptor when opened as a FILE
	int64_t mtime = 0;
	FILE *fp = nullptr;
	int task = 0;

	size_t limit() const;      // bytes available before end of input
	int cb_read(void *buf, size_t n);
	int cb_skip(size_t n);
	FILE *open_file();         // fopencookie stream of the configured kind
	LHAInputStream *open_stream();   // via callbacks or lha_input_stream_from_FILE
	static const LHAInputStreamType *cb_type(bool with_skip);
};

// ---------------------------------------------------------------- runtime state

struct AllocInfo { size_t size; uint64_t seq; const char *api; int state; };

struct Sim {
	// allocator ledger (counts only while a library call is in progress)
	bool ledger = false;
	std::unordered_map<void *, AllocInfo> live;
	size_t live_bytes = 0, peak_bytes = 0;
	uint64_t nallocs = 0;
	int64_t fail_at = -1;           // index of the library allocation that fails
	bool fail_fired = false;
	const char *fail_api = "";
	const char *cur_api = "";
	int cur_state = 0;
	// filesystem
	SimFS *fs = nullptr;
	struct Fd { int ino = -1; size_t off = 0; SimSource *src = nullptr; FILE *fp = nullptr; bool append = false; };
	std::map<int, Fd> fds;
	int next_fd = 1000000;
	std::map<FILE *, int> streams;  // simulated FILE -> fd
	int open_handles = 0;
	int64_t write_fail_at = -1;     // F-WRITE: output byte count at which writes start failing
	int write_errno = 28;
	int write_fail_once = 0;        // the refusal is transient: one write call is cut short, later ones succeed
	uint64_t out_written = 0;
	int out_buf = 0;                // 0 default, 1 unbuffered, n>1 buffer size
	bool fdopen_fail = false;
	SimSource *archive_src = nullptr;   // served when the archive inode is fopen()ed
	int archive_ino = -1;
	std::map<int, SimSource *> by_name_srcs;   // further archives opened by name: inode -> the source that serves it
	// clock
	bool clock_on = false;
	int64_t now = 0;
	uint64_t clock_reads = 0;
	// process
	jmp_buf *exit_jb = nullptr;
	int exit_status = 0;
	bool aborted = false;
	// seam accounting
	uint64_t steps = 0, budget = ~0ULL;
	bool budget_tripped = false;
	std::string budget_where;
	Fnv trace;
	Counters counters;
	bool tracing = true;

	void reset();
};

extern Sim g_sim;
extern thread_local int t_inlib;
extern thread_local jmp_buf *t_budget_jb;

// RAII marker: "a library call is in progress" (allocations are ledgered)
struct LibScope {
	const char *prev;
	explicit LibScope(const char *api) { prev = g_sim.cur_api; g_sim.cur_api = api; ++t_inlib; }
	~LibScope() { --t_inlib; g_sim.cur_api = prev; }
};

// every seam crossing goes through here: trace, step budget, scheduler yield
void sim_seam(const char *what, uint64_t a, uint64_t b = 0, bool counts = false);
inline void trace_u64(uint64_t v) { if (g_sim.tracing) g_sim.trace.u64(v); }
inline void trace_str(const std::string &s) { if (g_sim.tracing) g_sim.trace.str(s); }
inline void count(const std::string &k, uint64_t n = 1) { g_sim.counters[k] += n; }

// ---------------------------------------------------------------- scheduler

class Baton {
public:
	// Runs the task bodies on real threads, exactly one at a time; at every
	// sim_seam() the running task may hand over to another, as decided by
	// 'decide' (recorded into 'decisions').
	void run(std::vector<std::function<void()>> bodies, std::function<int(const std::vector<int> &runnable)> decide);
	void yield_point();
	bool active = false;
	int current = -1;
	uint64_t switches = 0;
	std::vector<int> decisions;
private:
	struct Impl;
	Impl *impl = nullptr;
};
extern Baton g_baton;
extern thread_local int t_task;

// ---------------------------------------------------------------- CLI

struct CliResult {
	int status = 0;
	bool exited = false;       // left through exit()
	bool budget = false;       // abandoned: seam budget exceeded
	std::string out, err;
};
// Runs the real tool in-process. The archive is reached either through fopen
// (path must name g_sim.archive_ino in SimFS) or through "-" (stdin = source).
CliResult run_cli(const std::vector<std::string> &argv, const std::string &stdin_script, SimSource *stdin_src);

// set TZ for the process (fixed-offset zones)
void sim_set_tz(const std::string &tz);
