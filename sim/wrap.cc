// Link-time wrappers (-Wl,--wrap=...) around the libc symbols lhasa uses.
// Outside a simulated run every wrapper passes straight through.
#include "sim.h"
#include <cerrno>
#include <cstdarg>
#include <cstdlib>
#include <ctime>
#include <fcntl.h>
#include <sys/stat.h>
#include <unistd.h>
#include <utime.h>

Sim g_sim;
thread_local int t_inlib = 0;
thread_local jmp_buf *t_budget_jb = nullptr;

void Sim::reset() {
	ledger = false;
	live.clear();
	live_bytes = peak_bytes = 0;
	nallocs = 0;
	fail_at = -1;
	fail_fired = false;
	fail_api = "";
	cur_api = "";
	cur_state = 0;
	fs = nullptr;
	fds.clear();
	next_fd = 1000000;
	streams.clear();
	open_handles = 0;
	write_fail_at = -1;
	write_errno = ENOSPC;
	write_fail_once = 0;
	out_written = 0;
	out_buf = 0;
	fdopen_fail = false;
	archive_src = nullptr;
	archive_ino = -1;
	by_name_srcs.clear();
	clock_on = false;
	now = 0;
	clock_reads = 0;
	exit_jb = nullptr;
	exit_status = 0;
	aborted = false;
	steps = 0;
	budget = ~0ULL;
	budget_tripped = false;
	budget_where.clear();
	trace = Fnv();
	counters.clear();
	tracing = true;
}

void sim_seam(const char *what, uint64_t a, uint64_t b, bool counts) {
	if (g_sim.tracing) {
		g_sim.trace.add(what, strlen(what));
		g_sim.trace.u64(a);
		g_sim.trace.u64(b);
		if (g_baton.active) g_sim.trace.u64((uint64_t) t_task);
	}
	if (counts) {
		if (++g_sim.steps > g_sim.budget && t_budget_jb) {
			g_sim.budget_tripped = true;
			g_sim.budget_where = g_sim.cur_api;
			jmp_buf *jb = t_budget_jb;
			t_budget_jb = nullptr;
			longjmp(*jb, 1);
		}
	}
	if (g_baton.active) g_baton.yield_point();
}

extern "C" {

void *__real_malloc(size_t);
void *__real_calloc(size_t, size_t);
void *__real_realloc(void *, size_t);
void __real_free(void *);
FILE *__real_fopen(const char *, const char *);
FILE *__real_fdopen(int, const char *);
int __real_fclose(FILE *);
int __real_fileno(FILE *);
int __real_fstat(int, struct stat *);
int __real_mkdir(const char *, mode_t);
int __real_open(const char *, int, ...);
int __real_close(int);
int __real_unlink(const char *);
int __real_remove(const char *);
int __real_symlink(const char *, const char *);
int __real_chmod(const char *, mode_t);
int __real_chown(const char *, uid_t, gid_t);
int __real_fchmod(int, mode_t);
int __real_fchown(int, uid_t, gid_t);
int __real_utime(const char *, const struct utimbuf *);
int __real_stat(const char *, struct stat *);
int __real_lstat(const char *, struct stat *);
int __real_rmdir(const char *);
time_t __real_time(time_t *);
void __real_exit(int) __attribute__((noreturn));
void __real_abort(void) __attribute__((noreturn));
int __real_vasprintf(char **, const char *, va_list);

// ------------------------------------------------------------ allocator

static inline bool ledgering() { return t_inlib > 0 && g_sim.ledger; }

static bool alloc_should_fail() {
	uint64_t k = g_sim.nallocs++;
	if (g_sim.fail_at >= 0 && (int64_t) k == g_sim.fail_at) {
		g_sim.fail_fired = true;
		g_sim.fail_api = g_sim.cur_api;
		g_sim.counters["fault.A-FAIL"]++;
		return true;
	}
	return false;
}

static void ledger_add(void *p, size_t n) {
	if (!p) return;
	g_sim.live[p] = AllocInfo{n, g_sim.nallocs - 1, g_sim.cur_api, g_sim.cur_state};
	g_sim.live_bytes += n;
	if (g_sim.live_bytes > g_sim.peak_bytes) g_sim.peak_bytes = g_sim.live_bytes;
}

static bool ledger_del(void *p) {
	auto it = g_sim.live.find(p);
	if (it == g_sim.live.end()) return false;
	g_sim.live_bytes -= it->second.size;
	g_sim.live.erase(it);
	return true;
}

void *__wrap_malloc(size_t n) {
	if (!ledgering()) return __real_malloc(n);
	if (alloc_should_fail()) { errno = ENOMEM; return nullptr; }
	void *p = __real_malloc(n);
	ledger_add(p, n);
	sim_seam("malloc", n);
	return p;
}

void *__wrap_calloc(size_t a, size_t b) {
	if (!ledgering()) return __real_calloc(a, b);
	if (alloc_should_fail()) { errno = ENOMEM; return nullptr; }
	void *p = __real_calloc(a, b);
	ledger_add(p, a * b);
	sim_seam("calloc", a * b);
	return p;
}

void *__wrap_realloc(void *old, size_t n) {
	if (!ledgering()) {
		if (g_sim.ledger && old) ledger_del(old);   // keeps the ledger honest if the harness reallocs a library block
		return __real_realloc(old, n);
	}
	if (alloc_should_fail()) { errno = ENOMEM; return nullptr; }
	// account for the transient copy: old and new block both live for a moment
	size_t oldsz = 0;
	auto it = g_sim.live.find(old);
	if (it != g_sim.live.end()) oldsz = it->second.size;
	if (g_sim.live_bytes + n > g_sim.peak_bytes) g_sim.peak_bytes = g_sim.live_bytes + n;
	void *p = __real_realloc(old, n);
	if (p) {
		if (old) ledger_del(old);
		ledger_add(p, n);
	}
	(void) oldsz;
	sim_seam("realloc", n);
	return p;
}

void __wrap_free(void *p) {
	if (g_sim.ledger && p) ledger_del(p);
	__real_free(p);
}

char *__wrap_strdup(const char *s) {
	size_t n = strlen(s) + 1;
	char *p = (char *) __wrap_malloc(n);
	if (p) memcpy(p, s, n);
	return p;
}

int __wrap_vasprintf(char **out, const char *fmt, va_list ap) {
	if (ledgering() && alloc_should_fail()) { *out = nullptr; errno = ENOMEM; return -1; }
	int r = __real_vasprintf(out, fmt, ap);
	if (r >= 0 && ledgering()) ledger_add(*out, (size_t) r + 1);
	return r;
}

// ------------------------------------------------------------ clock, process

time_t __wrap_time(time_t *t) {
	if (!g_sim.clock_on) return __real_time(t);
	g_sim.clock_reads++;
	sim_seam("time", (uint64_t) g_sim.now);
	if (t) *t = (time_t) g_sim.now;
	return (time_t) g_sim.now;
}

void __wrap_exit(int status) {
	if (g_sim.exit_jb) {
		g_sim.exit_status = status;
		jmp_buf *jb = g_sim.exit_jb;
		g_sim.exit_jb = nullptr;
		longjmp(*jb, 1);
	}
	__real_exit(status);
}

void __wrap_abort(void) {
	// C08: the tool and library must never abort. Make it visible and
	// distinguishable from sanitizer exits.
	static const char msg[] = "SIM-ABORT: abort() called\n";
	if (write(2, msg, sizeof msg - 1) < 0) {}
	_exit(79);
}

// ------------------------------------------------------------ descriptors and streams

static int fd_alloc(int ino) {
	int fd = g_sim.next_fd++;
	Sim::Fd f;
	f.ino = ino;
	g_sim.fds[fd] = f;
	g_sim.open_handles++;
	return fd;
}

static void fd_release(int fd) {
	auto it = g_sim.fds.find(fd);
	if (it == g_sim.fds.end()) return;
	g_sim.fds.erase(it);
	g_sim.open_handles--;
}

// cookie for output files
struct OutCookie { int fd; };

static ssize_t out_write(void *c, const char *buf, size_t n) {
	OutCookie *oc = (OutCookie *) c;
	auto it = g_sim.fds.find(oc->fd);
	if (it == g_sim.fds.end() || !g_sim.fs) { errno = EBADF; return 0; }
	size_t allowed = n;
	if (g_sim.write_fail_at >= 0) {
		uint64_t room = (uint64_t) g_sim.write_fail_at > g_sim.out_written
		              ? (uint64_t) g_sim.write_fail_at - g_sim.out_written : 0;
		if (room < allowed) allowed = (size_t) room;
	}
	int err = 0;
	if (allowed > 0) {
		g_sim.fs->sys_write(it->second.ino, it->second.off, (const uint8_t *) buf, allowed, err);
		it->second.off += allowed;
		g_sim.out_written += allowed;
	}
	sim_seam("write", n, allowed);
	if (allowed < n) {
		g_sim.counters["fault.F-WRITE"]++;
		if (g_sim.write_fail_once) g_sim.write_fail_at = -1;   // transient: the medium takes data again from the next call on
		errno = g_sim.write_errno;
		return (ssize_t) allowed;   // short count: stdio treats it as an error
	}
	return (ssize_t) n;
}

static int out_close(void *c) {
	OutCookie *oc = (OutCookie *) c;
	fd_release(oc->fd);
	delete oc;
	return 0;
}

// cookie for reading a plain SimFS file
struct InCookie { int fd; };

static ssize_t in_read(void *c, char *buf, size_t n) {
	InCookie *ic = (InCookie *) c;
	auto it = g_sim.fds.find(ic->fd);
	if (it == g_sim.fds.end() || !g_sim.fs) { errno = EBADF; return -1; }
	const Bytes &d = g_sim.fs->nodes[it->second.ino].data;
	size_t off = it->second.off;
	size_t k = off < d.size() ? std::min(n, d.size() - off) : 0;
	memcpy(buf, d.data() + off, k);
	it->second.off += k;
	return (ssize_t) k;
}

static int in_seek(void *c, off64_t *off, int whence) {
	InCookie *ic = (InCookie *) c;
	auto it = g_sim.fds.find(ic->fd);
	if (it == g_sim.fds.end() || !g_sim.fs) { errno = EBADF; return -1; }
	const Bytes &d = g_sim.fs->nodes[it->second.ino].data;
	int64_t base = whence == SEEK_SET ? 0 : whence == SEEK_CUR ? (int64_t) it->second.off : (int64_t) d.size();
	int64_t np = base + *off;
	if (np < 0) { errno = EINVAL; return -1; }
	it->second.off = (size_t) np;
	*off = np;
	return 0;
}

static int in_close(void *c) {
	InCookie *ic = (InCookie *) c;
	fd_release(ic->fd);
	delete ic;
	return 0;
}

FILE *__wrap_fopen(const char *path, const char *mode) {
	if (!g_sim.fs) return __real_fopen(path, mode);
	if (strchr(mode, 'w') || strchr(mode, 'a') || strchr(mode, '+')) {
		// lhasa never does this; treat as an open(O_CREAT|O_TRUNC) for fidelity
		int ino, err;
		if (g_sim.fs->sys_open(path, O_WRONLY | O_CREAT | O_TRUNC, 0666, ino, err) != 0) { errno = err; return nullptr; }
		int fd = fd_alloc(ino);
		OutCookie *oc = new OutCookie{fd};
		cookie_io_functions_t io = {nullptr, out_write, nullptr, out_close};
		FILE *f = fopencookie(oc, "w", io);
		g_sim.streams[f] = fd;
		g_sim.fds[fd].fp = f;
		return f;
	}
	int ino, err;
	sim_seam("fopen", 0);
	if (g_sim.fs->sys_open_read(path, ino, err) != 0) { errno = err; return nullptr; }
	if (g_sim.fs->nodes[ino].type == 'd') {
		// fopen("dir","rb") succeeds on Linux and reads fail with EISDIR; model as an empty unreadable stream
	}
	{
		auto bn = g_sim.by_name_srcs.find(ino);
		if (bn != g_sim.by_name_srcs.end() && bn->second) return bn->second->open_file();
	}
	if (ino == g_sim.archive_ino && g_sim.archive_src) {
		FILE *f = g_sim.archive_src->open_file();
		return f;
	}
	int fd = fd_alloc(ino);
	InCookie *ic = new InCookie{fd};
	cookie_io_functions_t io = {in_read, nullptr, in_seek, in_close};
	FILE *f = fopencookie(ic, "r", io);
	g_sim.streams[f] = fd;
	g_sim.fds[fd].fp = f;
	return f;
}

FILE *__wrap_fdopen(int fd, const char *mode) {
	auto it = g_sim.fds.find(fd);
	if (it == g_sim.fds.end()) return __real_fdopen(fd, mode);
	if (g_sim.fs) {
		// F-SYSCALL on fdopen
		int n = g_sim.fs->calls["fdopen"]++;
		auto f = g_sim.fs->faults.find({"fdopen", n});
		if (f != g_sim.fs->faults.end()) {
			g_sim.counters["fault.F-SYSCALL"]++;
			FsLog l; l.op = "fdopen"; l.ino = it->second.ino; l.err = f->second; l.injected = true;
			if (l.ino >= 0) { l.parent = g_sim.fs->nodes[l.ino].parent; l.path = g_sim.fs->path_of(l.ino); }
			g_sim.fs->log.push_back(l);
			errno = f->second;
			return nullptr;
		}
	}
	OutCookie *oc = new OutCookie{fd};
	cookie_io_functions_t io = {nullptr, out_write, nullptr, out_close};
	FILE *f = fopencookie(oc, "w", io);
	if (!f) { delete oc; return nullptr; }
	if (g_sim.out_buf == 1) setvbuf(f, nullptr, _IONBF, 0);
	else if (g_sim.out_buf > 1) setvbuf(f, nullptr, _IOFBF, (size_t) g_sim.out_buf);
	g_sim.streams[f] = fd;
	it->second.fp = f;
	return f;
}

int __wrap_fclose(FILE *f) {
	auto it = g_sim.streams.find(f);
	if (it != g_sim.streams.end()) g_sim.streams.erase(it);
	return __real_fclose(f);
}

// fread on a simulated stream is a seam crossing of its own: glibc answers from its buffer or from its EOF flag without
// calling the cookie, so a loop that keeps asking a FILE at end of input would otherwise cross no seam at all
size_t __real_fread(void *, size_t, size_t, FILE *);
size_t __wrap_fread(void *buf, size_t sz, size_t n, FILE *f) {
	if (t_inlib > 0 && g_sim.streams.count(f)) sim_seam("fread", sz * n, 0, true);
	return __real_fread(buf, sz, n, f);
}

int __wrap_fileno(FILE *f) {
	auto it = g_sim.streams.find(f);
	if (it != g_sim.streams.end()) return it->second;
	return __real_fileno(f);
}

static void fill_stat(struct stat *st, const SimStat &s) {
	memset(st, 0, sizeof *st);
	st->st_mode = (mode_t)((s.type == 'd' ? S_IFDIR : s.type == 'l' ? S_IFLNK : s.type == 'p' ? S_IFIFO : S_IFREG) | s.mode);
	st->st_uid = (uid_t) s.uid;
	st->st_gid = (gid_t) s.gid;
	st->st_mtime = (time_t) s.mtime;
	st->st_atime = (time_t) s.mtime;
	st->st_ctime = (time_t) s.mtime;
	st->st_size = (off_t) s.size;
	st->st_ino = (ino_t) s.ino + 2;
	st->st_nlink = 1;
}

int __wrap_fstat(int fd, struct stat *st) {
	auto it = g_sim.fds.find(fd);
	if (it == g_sim.fds.end()) return __real_fstat(fd, st);
	sim_seam("fstat", (uint64_t) fd);
	SimStat s;
	if (it->second.src) {
		// a source that cannot seek is a pipe (or a FIFO opened by name), and says so
		s.type = it->second.src->kind == "FILE_PIPE" ? 'p' : 'f'; s.mode = 0644; s.uid = 0; s.gid = 0; s.ino = 0;
		s.mtime = it->second.src->mtime; s.size = s.type == 'p' ? 0 : (int64_t) it->second.src->limit();
	} else if (g_sim.fs && it->second.ino >= 0) {
		const Inode &n = g_sim.fs->nodes[it->second.ino];
		s.type = n.type; s.mode = n.mode; s.uid = n.uid; s.gid = n.gid; s.ino = it->second.ino;
		s.mtime = n.mtime; s.size = (int64_t) n.data.size();
	} else { errno = EBADF; return -1; }
	fill_stat(st, s);
	return 0;
}

int __wrap_stat(const char *p, struct stat *st) {
	if (!g_sim.fs) return __real_stat(p, st);
	SimStat s;
	int err;
	sim_seam("stat", 0);
	if (g_sim.fs->sys_stat(p, s, err, true) != 0) { errno = err; return -1; }
	fill_stat(st, s);
	return 0;
}

int __wrap_lstat(const char *p, struct stat *st) {
	if (!g_sim.fs) return __real_lstat(p, st);
	SimStat s;
	int err;
	sim_seam("lstat", 0);
	if (g_sim.fs->sys_stat(p, s, err, false) != 0) { errno = err; return -1; }
	fill_stat(st, s);
	return 0;
}

int __wrap_mkdir(const char *p, mode_t m) {
	if (!g_sim.fs) return __real_mkdir(p, m);
	int err;
	sim_seam("mkdir", m);
	if (g_sim.fs->sys_mkdir(p, (int) m, err) != 0) { errno = err; return -1; }
	return 0;
}

int __wrap_open(const char *p, int flags, ...) {
	int mode = 0;
	if (flags & O_CREAT) {
		va_list ap;
		va_start(ap, flags);
		mode = va_arg(ap, int);
		va_end(ap);
	}
	if (!g_sim.fs) return __real_open(p, flags, mode);
	int ino, err;
	sim_seam("open", (uint64_t) flags);
	if (g_sim.fs->sys_open(p, flags, mode, ino, err) != 0) { errno = err; return -1; }
	int fd = fd_alloc(ino);
	if (flags & O_APPEND) g_sim.fds[fd].off = g_sim.fs->nodes[ino].data.size();
	return fd;
}

int __wrap_close(int fd) {
	auto it = g_sim.fds.find(fd);
	if (it == g_sim.fds.end()) return __real_close(fd);
	fd_release(fd);
	return 0;
}

int __wrap_unlink(const char *p) {
	if (!g_sim.fs) return __real_unlink(p);
	int err;
	sim_seam("unlink", 0);
	if (g_sim.fs->sys_unlink(p, err) != 0) { errno = err; return -1; }
	return 0;
}

int __wrap_rmdir(const char *p) {
	if (!g_sim.fs) return __real_rmdir(p);
	int err;
	sim_seam("rmdir", 0);
	if (g_sim.fs->sys_rmdir(p, err) != 0) { errno = err; return -1; }
	return 0;
}

int __wrap_remove(const char *p) {
	if (!g_sim.fs) return __real_remove(p);
	int err;
	sim_seam("remove", 0);
	if (g_sim.fs->sys_remove(p, err) != 0) { errno = err; return -1; }
	return 0;
}

int __wrap_symlink(const char *target, const char *p) {
	if (!g_sim.fs) return __real_symlink(target, p);
	int err;
	sim_seam("symlink", 0);
	if (g_sim.fs->sys_symlink(target, p, err) != 0) { errno = err; return -1; }
	return 0;
}

int __wrap_chmod(const char *p, mode_t m) {
	if (!g_sim.fs) return __real_chmod(p, m);
	int err;
	sim_seam("chmod", m);
	if (g_sim.fs->sys_chmod(p, (int) m, err) != 0) { errno = err; return -1; }
	return 0;
}

int __wrap_chown(const char *p, uid_t u, gid_t g) {
	if (!g_sim.fs) return __real_chown(p, u, g);
	int err;
	sim_seam("chown", u, g);
	if (g_sim.fs->sys_chown(p, (int) u, (int) g, err) != 0) { errno = err; return -1; }
	return 0;
}

int __wrap_fchmod(int fd, mode_t m) {
	auto it = g_sim.fds.find(fd);
	if (it == g_sim.fds.end()) return __real_fchmod(fd, m);
	int err;
	sim_seam("fchmod", m);
	if (g_sim.fs->sys_fchmod(it->second.ino, (int) m, err) != 0) { errno = err; return -1; }
	return 0;
}

int __wrap_fchown(int fd, uid_t u, gid_t g) {
	auto it = g_sim.fds.find(fd);
	if (it == g_sim.fds.end()) return __real_fchown(fd, u, g);
	int err;
	sim_seam("fchown", u, g);
	if (g_sim.fs->sys_fchown(it->second.ino, (int) u, (int) g, err) != 0) { errno = err; return -1; }
	return 0;
}

int __wrap_utime(const char *p, const struct utimbuf *t) {
	if (!g_sim.fs) return __real_utime(p, t);
	int err;
	sim_seam("utime", t ? (uint64_t) t->modtime : 0);
	int64_t mt = t ? (int64_t) t->modtime : g_sim.fs->clock;
	if (g_sim.fs->sys_utime(p, mt, err) != 0) { errno = err; return -1; }
	return 0;
}

} // extern "C"

// ------------------------------------------------------------ sources

size_t SimSource::limit() const {
	size_t n = data ? data->size() : 0;
	if (trunc >= 0 && (size_t) trunc < n) n = (size_t) trunc;
	return n;
}

int SimSource::cb_read(void *buf, size_t n) {
	++reads;
	sim_seam("src.read", n, pos, true);
	if (errat >= 0 && pos >= (size_t) errat && !(erronce && err_fired)) {
		if (!err_fired) { err_fired = true; g_sim.counters[erronce ? "fault.S-ERR-ONCE" : "fault.S-ERR"]++; }
		return -1;
	}
	if (erronce && err_fired) {
		// the error was transient: the source goes on where it was
		size_t lim0 = limit();
		size_t k0 = pos < lim0 ? std::min(n, lim0 - pos) : 0;
		if (k0) memcpy(buf, data->data() + pos, k0);
		pos += k0;
		bytes += k0;
		if (k0 == 0) ++eof_reads;
		return (int) k0;
	}
	if (endless && data && !data->empty()) {
		// a source that never ends (a device, a peer that keeps talking): the bytes repeat
		for (size_t j = 0; j < n; ++j) ((uint8_t *) buf)[j] = (*data)[(pos + j) % data->size()];
		pos += n;
		bytes += n;
		g_sim.counters["fault.S-ENDLESS"] = 1;
		return (int) n;
	}
	size_t lim = limit();
	if (errat >= 0 && (size_t) errat < lim) lim = (size_t) errat;
	size_t k = pos < lim ? std::min(n, lim - pos) : 0;
	if (k) memcpy(buf, data->data() + pos, k);
	pos += k;
	bytes += k;
	if (k < n) {
		if (k == 0) ++eof_reads;
		if (!eof_hit) {
			eof_hit = true;
			if (trunc >= 0 && (size_t) trunc < data->size()) g_sim.counters["fault.S-EOF"]++;
		}
		if (errat >= 0 && pos >= (size_t) errat && k == 0) return -1;
	}
	return (int) k;
}

int SimSource::cb_skip(size_t n) {
	++skips;
	sim_seam("src.skip", n, pos, true);
	if (skipfail >= 0 && (int64_t) skips - 1 == skipfail) {
		g_sim.counters["fault.S-SKIPFAIL"]++;
		return 0;
	}
	if (endless) { pos += n; return 1; }
	size_t lim = limit();
	if (!skippast && pos + n > lim) {
		// a skip that cannot be satisfied: consume what is there, report failure
		pos = lim;
		if (!eof_hit) { eof_hit = true; if (trunc >= 0 && (size_t) trunc < data->size()) g_sim.counters["fault.S-EOF"]++; }
		return 0;
	}
	pos += n;
	return 1;
}

static int cbt_read(void *h, void *buf, size_t n) { return ((SimSource *) h)->cb_read(buf, n); }
static int cbt_skip(void *h, size_t n) { return ((SimSource *) h)->cb_skip(n); }
static void cbt_close(void *h) { ((SimSource *) h)->closed = true; g_sim.open_handles--; }
static const LHAInputStreamType g_cb_skip = {cbt_read, cbt_skip, cbt_close};
static const LHAInputStreamType g_cb_noskip = {cbt_read, nullptr, cbt_close};

const LHAInputStreamType *SimSource::cb_type(bool with_skip) { return with_skip ? &g_cb_skip : &g_cb_noskip; }

static ssize_t src_cookie_read(void *c, char *buf, size_t n) {
	SimSource *s = (SimSource *) c;
	int r = s->cb_read(buf, n);
	if (r < 0) { errno = s->errerrno; return -1; }
	return r;
}

static int src_cookie_seek_full(void *c, off64_t *off, int whence) {
	SimSource *s = (SimSource *) c;
	++s->seeks;
	sim_seam("src.seek", (uint64_t) *off, (uint64_t) whence, true);
	int64_t base = whence == SEEK_SET ? 0 : whence == SEEK_CUR ? (int64_t) s->pos : (int64_t) s->limit();
	int64_t np = base + *off;
	if (np < 0) { errno = EINVAL; return -1; }
	s->pos = (size_t) np;
	*off = np;
	return 0;
}

static int src_cookie_seek_half(void *c, off64_t *off, int whence) {
	SimSource *s = (SimSource *) c;
	++s->seeks;
	sim_seam("src.seek", (uint64_t) *off, (uint64_t) whence, true);
	if (whence == SEEK_CUR && *off == 0) { *off = (off64_t) s->pos; return 0; }
	g_sim.counters["fault.S-SEEKERR"]++;
	errno = s->seekerr ? EIO : ESPIPE;
	return -1;
}

static int src_cookie_close(void *c) {
	SimSource *s = (SimSource *) c;
	s->closed = true;
	if (s->fd >= 0) {
		auto it = g_sim.fds.find(s->fd);
		if (it != g_sim.fds.end()) { g_sim.fds.erase(it); g_sim.open_handles--; }
		s->fd = -1;
	}
	return 0;
}

FILE *SimSource::open_file() {
	cookie_io_functions_t io = {src_cookie_read, nullptr, nullptr, src_cookie_close};
	if (kind == "FILE_SEEK") io.seek = src_cookie_seek_full;
	else if (kind == "FILE_HALFSEEK") io.seek = src_cookie_seek_half;
	FILE *f = fopencookie(this, "r", io);
	if (!f) return nullptr;
	fd = g_sim.next_fd++;
	Sim::Fd e;
	e.src = this;
	e.fp = f;
	g_sim.fds[fd] = e;
	g_sim.open_handles++;
	g_sim.streams[f] = fd;
	fp = f;
	return f;
}

LHAInputStream *SimSource::open_stream() {
	if (kind == "CB_SKIP" || kind == "CB_NOSKIP") {
		if (prepos > 0) pos = (size_t) prepos;   // the caller's own reads came first
		LHAInputStream *s = lha_input_stream_new(cb_type(kind == "CB_SKIP"), this);
		if (s) g_sim.open_handles++;
		return s;
	}
	FILE *f = open_file();
	if (!f) return nullptr;
	if (prepos > 0) {
		// the caller has read a wrapper of its own from this FILE (or positioned it) before the library gets it
		if (kind == "FILE_SEEK" && (prepos & 1)) fseek(f, (long) prepos, SEEK_SET);
		else { Bytes tmp((size_t) prepos); size_t got = fread(tmp.data(), 1, tmp.size(), f); (void) got; }
	}
	return lha_input_stream_from_FILE(f);
}

void sim_set_tz(const std::string &tz) {
	static std::string cur = "\x01";
	if (tz == cur) return;
	cur = tz;
	setenv("TZ", tz.c_str(), 1);
	tzset();
}
