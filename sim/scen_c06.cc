// C06: extraction reproduces the archived tree. The real tool (and, for the
// three directory policies, the real library) runs on SimFS with a simulated
// euid, umask, filesystem clock and scripted prompt; an executable reference
// extractor that never looks at library state predicts the resulting tree.
#include "clienv.h"
#include "driver.h"
#include "gen.h"
#include <cerrno>

static bool glob_match6(const std::string &g, size_t gi, const std::string &s, size_t si) {
	while (gi < g.size()) {
		if (g[gi] == '*') {
			for (size_t k = si; k <= s.size(); ++k) if (glob_match6(g, gi + 1, s, k)) return true;
			return false;
		}
		if (si >= s.size()) return false;
		if (g[gi] != '?' && g[gi] != s[si]) return false;
		++gi; ++si;
	}
	return si == s.size();
}

static bool unsafe_target(const std::string &tg) {
	if (!tg.empty() && tg[0] == '/') return true;
	for (auto &c : split_ch(tg, '/')) if (c == "..") return true;
	return false;
}

struct MNode {
	char type = 'f';           // f d l ? (anything)
	Bytes data;
	std::string target;
	bool check_data = false, check_mtime = false, check_mode = false, check_target = false;
	int64_t mtime = 0;
	int mode = 0;
	bool original = false;     // untouched object of the initial tree: must be identical
	std::string orig_dump;
};

struct Opts { bool f = false, i = false, n = false; int q = 0; bool have_q = false; std::string w; char cmd = 'x'; };

static Opts parse_cmd(const std::string &cmd_in) {
	Opts o;
	std::string cmd = cmd_in;
	if (!cmd.empty() && cmd[0] == '-') cmd.erase(0, 1);
	o.cmd = cmd.empty() ? 'l' : cmd[0];
	for (size_t k = 1; k < cmd.size(); ++k) {
		char c = cmd[k];
		if (c == 'f') o.f = true;
		else if (c == 'i') o.i = true;
		else if (c == 'n') o.n = true;
		else if (c == 'q') {
			o.have_q = true;
			if (k + 1 < cmd.size() && cmd[k + 1] >= '0' && cmd[k + 1] <= '9') { o.q = cmd[k + 1] - '0'; ++k; } else o.q = 2;
		} else if (c == 'w') {
			size_t j = k + 1;
			if (j < cmd.size() && cmd[j] == '=') ++j;
			o.w = cmd.substr(j);
			break;
		}
	}
	return o;
}

struct C06 : Scenario {
	const char *property() const override { return "C06"; }
	uint64_t total_runs(uint64_t, const std::string &tier) override { return tier == "quick" ? 80000 : 3000000; }
	const char *nontrivial_rule() const override {
		return "a run is one generated well-formed tree (directory-first, contiguous; nested and sibling directories incl. read-only / "
		       "search-only / 0000 ones; files of every method and size class; MacLHA members with and without MacBinary envelope; safe "
		       "and unsafe symlinks; levels 0-3) and either one invocation of the tool (x/e with options from f q0-q2 i v w=DIR, or p; "
		       "0-3 wildcard patterns; pre-existing files with a scripted prompt; uid 0 or 1000; umask) or one of the three library "
		       "directory policies; the SimFS tree under the root (or stdout for p) must equal the reference extractor's model tree. "
		       "Non-trivial = at least 3 entries selected and at least one directory with recorded metadata or one pre-existing file; "
		       "distinct = distinct trace hash";
	}
	void describe(std::string &real, std::string &stub, std::string &assume) const override {
		real = "src/*.c, whole library incl. lib/lha_arch_unix.c and lib/macbinary.c (unmodified)";
		stub = "SimFS with simulated euid/umask/clock (mtimes stamped by the simulated clock), scripted stdin, terminal, archive source";
		assume = "names contain a lower-case letter and only printable, separator-free bytes; ownership, modes of files without recorded "
		         "permissions and of implicit parents are not compared; set-id bits are not compared (the kernel drops them on unprivileged writes)";
	}
	Plan generate(uint64_t seed, uint64_t run, const std::string &) override {
		Rng rng(seed, 6, run);
		Plan p;
		bool lib = rng.chance(1, 5);
		p.scenario = lib ? "lib_policy" : "cli";
		static const char *tzs[] = {"UTC", "JST-9", "EST5"};
		p.sets("tz", tzs[rng.below(3)]);
		TreeOpts o;
		o.max_entries = 2 + (int) rng.below(11);
		o.max_depth = 4;
		o.max_payload = 2000;
		o.mac = rng.chance(1, 4);
		o.uniform_level = rng.chance(1, 2);
		o.tzoff = tz_offset_of(p.gets("tz"));
		o.explicit_dirs_only = lib || rng.chance(1, 2);
		gen_tree(rng, o, p.members);
		if (rng.chance(1, 8)) {
			// members of methods that exist (or may exist) but cannot be decoded here: they fail - without a trace in the tree
			static const char *um[] = {"-lh2-", "-lh3-", "-lh8-"};   // ("-lh?-" keeps the archive recognisable when such a member comes first)
			for (auto &m : p.members)
				if (m.kind == 'f' && m.os != 'm' && rng.chance(1, 3)) {
					Bytes pl = member_plain(m);
					m.plain = pl; m.data = member_data(m); m.payload.clear(); m.cut = -1;
					m.method = um[rng.below(3)];
				}
		}
		int euid = rng.chance(1, 2) ? 0 : 1000;
		p.seti("euid", euid);
		static const int umasks[] = {022, 002, 077, 000, 027};
		p.seti("umask", umasks[rng.below(5)]);
		// root is not stopped by permission bits: a umask that takes the owner's bits away, so that what mkdir()/open() leave
		// behind differs from every recorded mode; and an extraction directory that hands its set-group-ID bit to new directories
		if (euid == 0 && rng.chance(1, 6)) { static const int hard_umasks[] = {0177, 0277, 0377, 0777, 0111}; p.seti("umask", hard_umasks[rng.below(5)]); }
		if (rng.chance(1, 8)) p.seti("rootmode", rng.chance(1, 2) ? 02755 : 03777);
		if (lib) {
			Task t;
			t.kind = "FILE_SEEK";
			t.policy = (int) rng.below(3);
			if (t.policy == 0) p.seti("euid", 0);   // plain policy: metadata before children; only root can still write them
			t.dir = "/w/x/y/root";
			for (size_t i = 0; i < 3 * p.members.size() + 8; ++i) {
				Op n; n.kind = "next"; t.ops.push_back(n);
				Op e; e.kind = "extract"; e.arg = 1; e.mon = rng.chance(1, 3); t.ops.push_back(e);
			}
			p.tasks.push_back(t);
			gen_fault(rng, p);
			return p;
		}
		// invocation
		std::string cmd;
		bool print = rng.chance(1, 8);
		cmd = print ? "p" : (rng.chance(1, 2) ? "x" : "e");
		bool overwrite_scenario = !print && rng.chance(1, 3);
		static const char *pol[] = {"f", "q0", "q1", "q2", "q", "fq1"};
		bool prompt = false;
		if (print) { static const char *pq[] = {"", "q0", "q1", "q2", "q"}; cmd += pq[rng.below(5)]; }
		else if (overwrite_scenario && rng.chance(1, 2)) prompt = true;
		else cmd += pol[rng.below(6)];
		if (rng.chance(1, 5)) cmd += "i";
		if (rng.chance(1, 6)) cmd += "v";
		bool from_stdin = rng.chance(1, 6);
		if (from_stdin) {
			// the prompt reads stdin too: an archive on stdin needs a non-interactive policy
			prompt = false;
			if (!print && cmd.find('f') == std::string::npos && cmd.find('q') == std::string::npos) cmd += "f";
			p.sets("srckind", rng.chance(1, 2) ? "FILE_PIPE" : "FILE_SEEK");
		}
		if (rng.chance(1, 3)) {
			static const char *wd[] = {"w=out", "w=new/deep/dir", "w=existing", "wplain", "w=/w/x/y/root/abs"};
			cmd += wd[rng.below(5)];   // must be the last option
		}
		p.argv = {"lha", cmd, from_stdin ? "-" : "/w/a.lzh"};
		Opts op = parse_cmd(p.argv[1]);
		if (op.w == "existing") { FsEnt e; e.type = 'd'; e.path = "/w/x/y/root/existing"; e.uid = e.gid = (int) p.geti("euid"); p.fs.push_back(e); }
		// patterns
		int np = rng.chance(3, 5) ? 0 : 1 + (int) rng.below(3);
		for (int k = 0; k < np; ++k) {
			const Member &m = p.members[rng.below(p.members.size())];
			std::string full = m.gpath + m.gname, pat;
			switch (rng.below(7)) {
				case 0: pat = full; break;
				case 1: pat = "*"; break;
				case 2: pat = m.gpath + "*"; break;
				case 3: { pat = full; if (!pat.empty()) pat[rng.below(pat.size())] = '?'; break; }
				case 4: { pat = full; for (auto &ch : pat) if (ch >= 'a' && ch <= 'z') { ch = (char)(ch - 32); break; } break; }
				case 5: pat = "*" + full.substr(rng.below(full.size() + 1)); break;
				default: pat = "nomatch*"; break;
			}
			switch (rng.below(8)) {
				case 0: pat += "**"; break;
				case 1: pat = "**" + pat; break;
				case 2: if (!pat.empty()) pat.insert(rng.below(pat.size() + 1), "*"); break;
				case 3: if (pat.size() > 1) { size_t k = rng.below(pat.size()); pat = pat.substr(0, k) + "*" + pat.substr(k + 1) + "*"; } break;
				default: break;
			}
			if (pat.empty()) pat = "*";
			p.argv.push_back(pat);
		}
		// pre-existing files at some file targets
		if (overwrite_scenario || rng.chance(1, 6)) {
			std::string base = "/w/x/y/root/";
			if (!op.w.empty()) base = (op.w[0] == '/' ? op.w : base + op.w) + "/";
			for (auto &m : p.members) {
				if (m.kind != 'f' || !rng.chance(1, 2)) continue;
				FsEnt e;
				e.type = 'f';
				e.path = base + (op.i ? "" : m.gpath) + m.gname;
				e.data = to_bytes("previous contents");
				// sometimes far longer than anything the archive holds: a replacement that does not start from an empty file shows
				if (rng.chance(1, 3)) { e.data.resize(6000); for (size_t k = 17; k < e.data.size(); ++k) e.data[k] = (uint8_t) ('A' + k % 23); }
				e.mode = 0644;
				e.uid = e.gid = (int) p.geti("euid");
				e.mtime = 1234567890;
				if (rng.chance(1, 4)) {
					// a symbolic link sits where the file is to go: to a directory, to a file, or to nothing; whether the member
					// counts as existing is decided by what the link resolves to, and the link itself is what gets replaced
					e.type = 'l';
					e.data.clear();
					static const char *tg[] = {".", "nowhere-at-all", "./", "..", "/w/x/y/root"};
					e.target = tg[rng.below(5)];
				}
				bool clash = false;
				for (auto &x : p.fs) if (x.path == e.path) clash = true;
				if (!clash) p.fs.push_back(e);
			}
		}
		if (!print && rng.chance(1, 5)) {
			std::string base = "/w/x/y/root/";
			if (!op.w.empty()) base = (op.w[0] == '/' ? op.w : base + op.w) + "/";
			for (auto &m : p.members) {
				if (m.kind != 'd' || op.i || !rng.chance(1, 2)) continue;
				FsEnt e;
				e.type = 'd';
				e.path = base + m.gpath;
				while (e.path.size() > 1 && e.path.back() == '/') e.path.pop_back();
				e.mode = rng.chance(1, 2) ? 0751 : 0700;
				e.uid = e.gid = (int) p.geti("euid");
				e.mtime = 1234500000;
				bool clash = false;
				for (auto &x : p.fs) if (x.path == e.path) clash = true;
				if (!clash) p.fs.push_back(e);
			}
		}
		if (!print && !prompt && (op.f || op.have_q) && !op.i && p.geti("euid") != 0 && rng.chance(1, 8)) {
			// a directory of the user's own that has lost its write bit, with an old (longer) file in it that the archive also
			// holds: the old file can be neither removed nor replaced - the member fails and the old file stays as it is
			std::string base = "/w/x/y/root/";
			if (!op.w.empty()) base = (op.w[0] == '/' ? op.w : base + op.w) + "/";
			for (auto &m : p.members) {
				if (m.kind != 'f' || m.gpath.empty()) continue;
				std::string dpath = base + m.gpath;
				while (dpath.size() > 1 && dpath.back() == '/') dpath.pop_back();
				bool clash = false;
				for (auto &x : p.fs) if (x.path == dpath || x.path.compare(0, dpath.size() + 1, dpath + "/") == 0 || dpath.compare(0, x.path.size() + 1, x.path + "/") == 0) clash = true;
				if (clash) continue;
				FsEnt d; d.type = 'd'; d.path = dpath; d.mode = 0555; d.uid = d.gid = (int) p.geti("euid"); d.mtime = 1234500000;
				FsEnt f; f.type = 'f'; f.path = dpath + "/" + m.gname; f.mode = 0644; f.uid = f.gid = (int) p.geti("euid"); f.mtime = 1234567890;
				f.data.resize(5000); for (size_t k = 0; k < f.data.size(); ++k) f.data[k] = (uint8_t) ('a' + k % 19);
				p.fs.push_back(d); p.fs.push_back(f);
				p.sets("ro_dir", "1");
				break;
			}
		}
		if (prompt) {
			static const char *ans[] = {"y\n", "n\n", "\n", "a\n", "s\n", "Y\n", "N\n", "q\ny\n", "yes please\n", "no\n", "x\n\n", "A\n", "S\n"};
			std::string s;
			for (int k = 0; k < 14; ++k) s += ans[rng.below(13)];
			s += "n\nn\nn\nn\nn\nn\nn\nn\nn\nn\nn\nn\nn\nn\nn\nn\n";
			p.stdin_script = s;
		}
		gen_fault(rng, p);
		return p;
	}
	// F-SYSCALL: one system call of the extraction fails once.  The entry it was made for (and what lies below it) may come
	// out differently or not at all; every other entry is still held to the archive exactly.
	static void gen_fault(Rng &rng, Plan &p) {
		if (!rng.chance(1, 6)) return;
		// not together with a prompt script: a member that fails to appear changes which later members "exist" and thereby
		// which scripted answer goes to which question - the effect of the fault would no longer be confined to one object
		if (!p.stdin_script.empty()) return;
		static const char *calls[] = {"mkdir", "open", "unlink", "symlink", "chmod", "chown", "fchmod", "fchown", "utime", "fdopen", "mkdir", "open"};
		static const int errs[] = {EACCES, ENOSPC, EIO, EPERM, ENOENT, EEXIST, EROFS, ENOMEM, ELOOP, ENAMETOOLONG, EINTR, EMFILE, ENOTDIR, EISDIR};
		p.sets("fsfaults", strf("%s:%d:%d", calls[rng.below(12)], (int) rng.below(6), errs[rng.below(14)]));
	}

	// ---- reference extractor -------------------------------------------------
	struct Model {
		std::map<std::string, MNode> tree;      // absolute path -> expectation
		std::string pstdout;                    // expected stdout of 'p'
		bool has_unsafe = false;
		int selected = 0;
		bool interesting = false;
		int blocked = 0;      // entries that lie directly below a directory of the initial tree the user may not write to
		int undecodable = 0;  // members of a method this build has no decoder for: they fail, and leave everything as it was
	};

	static void model_parents(Model &M, const std::string &path, const std::string &stop) {
		// every proper ancestor below 'stop' exists as a directory (mode unspecified when created implicitly)
		size_t pos = stop.size();
		while ((pos = path.find('/', pos + 1)) != std::string::npos) {
			std::string par = path.substr(0, pos);
			if (!M.tree.count(par)) { MNode d; d.type = 'd'; M.tree[par] = d; }
		}
	}

	Model reference(const Plan &p, SimFS &initial, bool cli, int policy) {
		Model M;
		std::string cwd = "/w/x/y/root";
		// the initial tree below the root, untouched unless the run overwrites
		std::function<void(int, const std::string &)> walk = [&](int ino, const std::string &path) {
			const Inode &n = initial.nodes[ino];
			if (path != cwd) {
				MNode m;
				m.type = n.type; m.original = true; m.target = n.target;
				m.orig_dump = strf("%c %o %lld %zu:%04x %s", n.type, n.mode, (long long) n.mtime, n.data.size(), crc16_bitwise(n.data), n.target.c_str());
				M.tree[path] = m;
			}
			if (n.type == 'd') for (auto &e : n.ents) walk(e.second, path + "/" + e.first);
		};
		walk(initial.lookup(cwd), cwd);
		Opts op;
		if (cli) op = parse_cmd(p.argv[1]);
		std::string base = cwd;
		if (!op.w.empty()) base = op.w[0] == '/' ? op.w : cwd + "/" + op.w;
		int policy_all = op.f || op.have_q ? 1 : 0;   // 0 prompt, 1 overwrite all, 2 skip all
		// a directory of the initial tree without write permission for its owner stops an ordinary user from creating,
		// replacing or removing anything directly below it: such entries fail and leave everything as it was
		int euid_m = (int) p.geti("euid", 0);
		auto blocked = [&](const std::string &out) {
			if (euid_m == 0) return false;
			std::string a = out;
			for (;;) {
				size_t sl = a.rfind('/');
				if (sl == std::string::npos || sl < cwd.size()) return false;
				a = a.substr(0, sl);
				auto it = M.tree.find(a);
				if (it == M.tree.end()) continue;
				if (it->second.type != 'd' || !it->second.original) return false;
				int mode = (int) strtol(it->second.orig_dump.c_str() + 2, nullptr, 8);
				return (mode & 0200) == 0;
			}
		};
		size_t sp = 0;                                 // position in the prompt script
		const std::string &script = p.stdin_script;
		std::vector<std::string> unsafe_dirs, unsafe_paths;
		for (auto &m : p.members) {
			std::string stored = m.gpath + m.gname;
			if (cli && p.argv.size() > 3) {
				bool hit = false;
				for (size_t k = 3; k < p.argv.size(); ++k) if (glob_match6(p.argv[k], 0, stored, 0)) hit = true;
				if (!hit) continue;
			}
			M.selected++;
			std::string rel = (op.i ? "" : m.gpath) + m.gname;
			while (!rel.empty() && rel[0] == '/') rel.erase(0, 1);
			std::string out = base + "/" + rel;
			while (out.size() > 1 && out.back() == '/') out.pop_back();
			if (op.cmd == 'p') {
				if (m.kind == 'l') { if (op.q < 2) M.pstdout += "Symbolic Link " + (op.w.empty() ? "" : op.w + "/") + rel + " -> " + m.gtarget + "\n"; }
				else if (m.kind == 'f') {
					if (op.q < 2) M.pstdout += "::::::::\n" + (op.w.empty() ? "" : op.w + "/") + rel + "\n::::::::\n";
					// (a member that cannot be decoded yields nothing behind its banner)
					if (!(m.method == "-lh2-" || m.method == "-lh3-" || m.method == "-lh8-")) M.pstdout += to_str(member_contents(m));
				}
				continue;
			}
			if (op.cmd != 'p' && blocked(out) && !(m.kind == 'd' && (op.i || (M.tree.count(out) && M.tree[out].type == 'd')))) { M.blocked++; M.interesting = true; continue; }
			if (m.kind == 'd') {
				if (op.i) continue;
				bool existed = M.tree.count(out) && M.tree[out].type == 'd';
				model_parents(M, out, cwd);
				if (!existed) {
					MNode d;
					d.type = 'd';
					if (policy != 0 || true) {
						if (m.gperms >= 0) { d.check_mode = true; d.mode = m.gperms & 07777; }
						if (m.gmtime != 0) { d.check_mtime = true; d.mtime = m.gmtime; }
					}
					if (!cli && policy == LHA_READER_DIR_PLAIN) { d.check_mtime = false; }
					M.tree[out] = d;
					if (d.check_mode || d.check_mtime) M.interesting = true;
				}
				continue;
			}
			if (m.kind == 'l') {
				model_parents(M, out, cwd);
				MNode l;
				if (unsafe_target(m.gtarget)) {
					// created last, after every other entry: whatever else is extracted to this path in between, the link ends up there
					M.has_unsafe = true;
					size_t sl = out.rfind('/');
					unsafe_dirs.push_back(out.substr(0, sl));
					unsafe_paths.push_back(out);
					if (!M.tree.count(out)) { l.type = '?'; M.tree[out] = l; }
				} else { l.type = 'l'; l.check_target = true; l.target = m.gtarget; M.tree[out] = l; }
				continue;
			}
			// file: "exists" is what stat() says, i.e. symbolic links are followed (a dangling link does not count as an
			// existing file and is replaced without asking)
			bool exists = false;
			{
				std::string cur = out;
				for (int hops = 0; hops < 8; ++hops) {
					auto it = M.tree.find(cur);
					if (it == M.tree.end()) {
						// outside the modelled tree (the root itself, something above or beside it): the run does not change
						// anything there, so the initial filesystem answers
						bool below = cur.size() > cwd.size() && cur.compare(0, cwd.size() + 1, cwd + "/") == 0;
						if (!below && !cur.empty() && initial.lookup(cur, true) >= 0) exists = true;
						break;
					}
					if (it->second.type == 'l' && (it->second.check_target || it->second.original)) {
						std::string tg = it->second.check_target ? it->second.target : it->second.target;
						if (tg.empty() || tg[0] == '/') { cur = tg; }
						else {
							// lexical resolution relative to the link's directory
							std::vector<std::string> parts;
							for (auto &cc : split_ch(cur.substr(0, cur.rfind('/')) + "/" + tg, '/')) {
								if (cc.empty() || cc == ".") continue;
								if (cc == "..") { if (!parts.empty()) parts.pop_back(); continue; }
								parts.push_back(cc);
							}
							cur.clear();
							for (auto &cc : parts) cur += "/" + cc;
						}
						continue;
					}
					exists = true;
					break;
				}
			}
			bool write = true;
			if (cli && exists) {
				M.interesting = true;
				if (policy_all == 1) write = true;
				else if (policy_all == 2) write = false;
				else {
					// consume scripted answers until one is understood (first character of each line counts)
					for (;;) {
						if (sp >= script.size()) { write = false; break; }   // scripts are padded; not reached
						char c = (char) tolower((unsigned char) script[sp]);
						size_t nl = script.find('\n', sp);
						sp = nl == std::string::npos ? script.size() : nl + 1;
						if (c == 'y') { write = true; break; }
						if (c == 'n' || c == '\n') { write = false; break; }
						if (c == 'a') { write = true; policy_all = 1; break; }
						if (c == 's') { write = false; policy_all = 2; break; }
					}
				}
			}
			if (!write) continue;
			model_parents(M, out, cwd);
			if (m.method == "-lh2-" || m.method == "-lh3-" || m.method == "-lh8-") {
				// nothing can be produced for it: no file appears, and an old file of that name (the overwrite question has been
				// asked and answered by now) is still there, untouched
				M.undecodable++;
				M.interesting = true;
				continue;
			}
			MNode f;
			f.type = 'f';
			f.check_data = true;
			f.data = member_contents(m);
			if (m.gmtime != 0) { f.check_mtime = true; f.mtime = m.gmtime; }
			if (m.gperms >= 0) { f.check_mode = true; f.mode = m.gperms & 07777; }
			M.tree[out] = f;
		}
		if (cli && !op.w.empty() && op.cmd != 'p' && M.selected > 0) {
			// 'w=DIR' relocates the tree, creating DIR
			bool any = false;
			for (auto &e : M.tree) if (e.first.size() > base.size() && e.first.compare(0, base.size() + 1, base + "/") == 0) any = true;
			if (any) { if (!M.tree.count(base)) { MNode d; d.type = 'd'; M.tree[base] = d; } model_parents(M, base + "/x", cwd); }
		}
		for (auto &u : unsafe_paths) { MNode l; l.type = '?'; M.tree[u] = l; }
		// directories that directly hold an unsafe symlink: mtime outside the guarantee
		for (auto &d : unsafe_dirs) if (M.tree.count(d)) M.tree[d].check_mtime = false;
		return M;
	}

	// paths excused by an injected fault: the object the failing call was made for, by the name the tool used and by
	// where that name resolves
	static std::vector<std::string> excused_paths(SimFS &fs, const std::string &cwd) {
		std::vector<std::string> ex;
		auto lexical = [&](const std::string &path) {
			std::string abs = (!path.empty() && path[0] == '/') ? path : cwd + "/" + path;
			std::vector<std::string> parts;
			size_t i = 0;
			while (i < abs.size()) {
				size_t j = abs.find('/', i);
				if (j == std::string::npos) j = abs.size();
				std::string c = abs.substr(i, j - i);
				if (c == "..") { if (!parts.empty()) parts.pop_back(); }
				else if (!c.empty() && c != ".") parts.push_back(c);
				i = j + 1;
			}
			std::string out;
			for (auto &c : parts) out += "/" + c;
			return out;
		};
		for (auto &l : fs.log) {
			if (!l.injected) continue;
			if (!l.path.empty()) ex.push_back(lexical(l.path));
			if (l.parent >= 0 && !l.name.empty()) ex.push_back(fs.path_of(l.parent) + "/" + l.name);
			if (l.ino >= 0) ex.push_back(fs.path_of(l.ino));
		}
		return ex;
	}
	static bool excused(const std::vector<std::string> &ex, const std::string &path) {
		for (auto &e : ex) {
			if (e.empty()) continue;
			if (path == e || (path.size() > e.size() && path.compare(0, e.size(), e) == 0 && path[e.size()] == '/')) return true;
		}
		return false;
	}

	bool compare(const Model &M, SimFS &fs, RunResult &res, const std::string &ctx) {
		std::string cwd = "/w/x/y/root";
		std::vector<std::string> ex = excused_paths(fs, cwd);
		// everything on disk must be expected
		std::function<bool(int, const std::string &)> walk = [&](int ino, const std::string &path) -> bool {
			const Inode &n = fs.nodes[ino];
			if (excused(ex, path)) return true;
			if (path != cwd) {
				auto it = M.tree.find(path);
				if (it == M.tree.end()) {
					res.fail("C06.unexpected_object", "unexpected:" + std::string(1, n.type), ctx + ": " + path + " exists after extraction but nothing in the archive or the initial tree accounts for it");
					return false;
				}
			}
			if (n.type == 'd') for (auto &e : n.ents) if (!walk(e.second, path + "/" + e.first)) return false;
			return true;
		};
		if (!walk(fs.lookup(cwd), cwd)) return false;
		for (auto &e : M.tree) {
			const MNode &m = e.second;
			if (excused(ex, e.first)) continue;
			int ino = fs.lookup(e.first, false);
			if (ino < 0) { res.fail("C06.missing", std::string("missing:") + m.type, ctx + ": " + e.first + " is missing after extraction"); return false; }
			const Inode &n = fs.nodes[ino];
			if (m.original) {
				std::string now = strf("%c %o %lld %zu:%04x %s", n.type, n.mode, (long long) n.mtime, n.data.size(), crc16_bitwise(n.data), n.target.c_str());
				if (n.type == 'd') {
					// directories of the initial tree may gain children (so their mtime may move), but they were not created by
					// this run: their permissions are not the archive's business
					int was = (int) strtol(m.orig_dump.c_str() + 2, nullptr, 8);
					if ((n.mode & 07777) != (was & 07777)) {
						res.fail("C06.preexisting_dir_mode", "preexisting_dir", ctx + ": " + e.first + strf(" existed before the run with mode %o and now has %o", was & 07777, n.mode & 07777));
						return false;
					}
					continue;
				}
				if (now != m.orig_dump) { res.fail("C06.overwrite_policy", "policy", ctx + ": " + e.first + " existed before and must not have been replaced (was: " + m.orig_dump + ", now: " + now + ")"); return false; }
				continue;
			}
			if (m.type != '?' && n.type != m.type) { res.fail("C06.type", strf("type:%c%c", m.type, n.type), ctx + ": " + e.first + strf(" is '%c', expected '%c'", n.type, m.type)); return false; }
			if (m.check_data && n.data != m.data) {
				res.fail("C06.contents", "contents", ctx + ": " + e.first + strf(" has %zu bytes (crc %04x), archived contents are %zu bytes (crc %04x)", n.data.size(), crc16_bitwise(n.data), m.data.size(), crc16_bitwise(m.data)));
				return false;
			}
			if (m.check_target && n.target != m.target) { res.fail("C06.link_target", "target", ctx + ": " + e.first + " -> " + n.target + ", recorded target " + m.target); return false; }
			if (m.check_mtime && n.mtime != m.mtime) {
				res.fail(m.type == 'd' ? "C06.dir_mtime" : "C06.file_mtime", std::string("mtime:") + m.type, ctx + ": " + e.first + strf(" has mtime %lld, recorded %lld", (long long) n.mtime, (long long) m.mtime));
				return false;
			}
			// as root nothing drops set-id bits (chown comes before chmod, writes keep them); an unprivileged writer loses them
			int mask = (m.type == 'd' || fs.euid == 0) ? 07777 : 0777;
			if (m.check_mode && (n.mode & mask) != (m.mode & mask)) {
				res.fail(m.type == 'd' ? "C06.dir_mode" : "C06.file_mode", std::string("mode:") + m.type, ctx + ": " + e.first + strf(" has mode %o, recorded %o", n.mode & mask, m.mode & mask));
				return false;
			}
		}
		return true;
	}

	RunResult execute(const Plan &p, Plan *) override {
		begin_run(p);
		RunResult res;
		BuiltArchive a = build_archive(p);
		CliEnv env(p);
		SimFS before = env.fs;   // copy of the initial tree for the reference extractor
		before.on_op = nullptr;
		bool cli = p.scenario == "cli";
		int policy = p.tasks.empty() ? 1 : p.tasks[0].policy;
		Model M = reference(p, before, cli, policy);
		g_sim.budget = 400000 + 256 * a.bytes.size();
		std::string ctx;
		if (cli) {
			Opts op = parse_cmd(p.argv[1]);
			std::string before_dump = env.fs.dump(env.fs.lookup("/w/x/y/root"), true);
			CliResult r = env.run(p, a.bytes);
			if (r.budget) { res.fail("C06.budget", "budget", "command did not finish within the step budget"); res.trace = finish_trace(); return res; }
			ctx = "lha " + p.argv[1];
			trace_str(r.out);
			if (op.cmd == 'p') {
				if (r.out != M.pstdout) {
					size_t k = 0;
					while (k < r.out.size() && k < M.pstdout.size() && r.out[k] == M.pstdout[k]) ++k;
					res.fail("C06.print_output", "print", ctx + strf(": stdout differs from banner+contents at byte %zu (got %zu bytes, expected %zu)", k, r.out.size(), M.pstdout.size()));
				} else if (env.fs.dump(env.fs.lookup("/w/x/y/root"), true) != before_dump)
					res.fail("C06.print_touches_fs", "print_fs", ctx + ": the print command changed the filesystem");
			} else {
				compare(M, env.fs, res, ctx);
				bool faulted = false;
				for (auto &l : env.fs.log) if (l.injected) faulted = true;
				if (res.ok && M.blocked && r.status == 0 && !r.exited)
					res.fail("C06.exit_status", "exit:blocked", ctx + ": exit status 0 although entries below a directory without write permission could not be extracted");
				if (res.ok && M.undecodable && r.status == 0 && !r.exited)
					res.fail("C06.exit_status", "exit:undecodable", ctx + ": exit status 0 although a selected member is of a method that cannot be decoded");
				if (res.ok && !M.has_unsafe && !faulted && !M.blocked && !M.undecodable && (r.status != 0 || r.exited))
					res.fail("C06.exit_status", "exit", ctx + strf(": exit status %d%s although everything selected could be extracted\nstderr: %s", r.status, r.exited ? " (via exit())" : "", printable(r.err).c_str()));
			}
			size_t bad;
			if (res.ok && op.cmd != 'p' && !c18_output_ok(r.out + r.err, &bad)) res.fail("C18.printable", "printable:c06", "non-printable byte on the terminal");
			count("kind.cmd." + std::string(1, op.cmd));
			if (op.i) count("kind.opt.i");
			if (!op.w.empty()) count("kind.opt.w");
			if (p.argv.size() > 3) count("kind.patterns");
			if (!p.stdin_script.empty()) count("kind.prompt_script");
		} else {
			g_sim.fs = &env.fs;
			DriveOpts o;
			o.stop_at_null = true;
			DriveOut d = drive_reader(p.tasks[0], a.bytes, o);
			g_sim.fs = nullptr;
			ctx = strf("library policy %d", policy);
			if (d.budget) res.fail("C06.budget", "budget", "a library call did not return within the step budget");
			else if (d.c11_bad) res.fail("C11.invariant", "c11", d.c11_why);
			else compare(M, env.fs, res, ctx);
			count(strf("kind.policy.%d", policy));
		}
		for (auto &l : env.fs.log) { trace_str(l.op); trace_u64((uint64_t) l.err); }
		res.ops = env.fs.log.size();
		res.nontrivial = M.selected >= 3 && M.interesting;
		count(strf("kind.euid.%d", (int) p.geti("euid")));
		count("probe.fs_operations", env.fs.log.size());
		if (M.has_unsafe) count("probe.unsafe_symlink_in_tree");
		if (M.blocked) count("probe.entries_blocked_by_a_read_only_directory", (uint64_t) M.blocked);
		if (M.undecodable) count("probe.members_of_an_undecodable_method", (uint64_t) M.undecodable);
		for (auto &m : p.members) if (m.mac) { count("probe.macbinary_member"); break; }
		for (auto &l : env.fs.log) if (l.err == EACCES || l.err == EPERM) { count("fault.F-PERM"); break; }
		for (auto &l : env.fs.log) if (l.injected) { count("fault.F-SYSCALL." + l.op); break; }
		res.trace = finish_trace();
		return res;
	}
};
REGISTER_SCENARIO(C06);

// ---- real-tool cross-check support: dump one C06 tool plan (archive bytes, invocation, initial tree) and the tree the
// simulated run produced, so that tools/selftests.py can run the plain lha binary on a real directory and compare
#include <fstream>
int c06_dump(uint64_t seed, uint64_t run, const std::string &outdir) {
	C06 sc;
	Plan p = sc.generate(seed, run, "quick");
	p.property = "C06"; p.seed = seed; p.run = run;
	if (p.scenario != "cli") return 3;
	if (!p.gets("fsfaults").empty()) return 3;   // an injected system-call failure has no counterpart in the real run
	Opts op = parse_cmd(p.argv[1]);
	if (!op.w.empty() && op.w[0] == '/') return 3;   // absolute w= cannot be relocated into a scratch directory
	begin_run(p);
	BuiltArchive a = build_archive(p);
	CliEnv env(p);
	g_sim.budget = 400000 + 256 * a.bytes.size();
	CliResult r = env.run(p, a.bytes);
	if (r.budget) return 3;
	{ std::ofstream f(outdir + "/archive.lzh", std::ios::binary); f.write((const char *) a.bytes.data(), (std::streamsize) a.bytes.size()); }
	std::ofstream s(outdir + "/spec.txt");
	s << "rootmode " << p.geti("rootmode", 0755) << "\n";
	s << "euid " << p.geti("euid") << "\numask " << p.geti("umask", 022) << "\ntz " << p.gets("tz", "UTC") << "\nstatus " << r.status << " " << (int) r.exited << "\n";
	s << "stdin " << (p.stdin_script.empty() ? "-" : hex_encode(p.stdin_script)) << "\n";
	for (auto &x : p.argv) s << "argv " << hex_encode(x) << "\n";
	for (auto &e : p.fs) s << "fs " << e.type << " " << hex_encode(e.path) << " " << e.mode << " " << e.mtime << " " << (e.data.empty() ? "-" : hex_encode(e.data)) << " " << (e.target.empty() ? "-" : hex_encode(e.target)) << "\n";
	s << "stdout " << (r.out.empty() ? "-" : hex_encode(r.out)) << "\n";
	// final simulated tree below the root
	std::function<void(int, const std::string &)> walk = [&](int ino, const std::string &rel) {
		const Inode &n = env.fs.nodes[ino];
		if (!rel.empty())
			s << "tree " << hex_encode(rel) << " " << n.type << " " << n.mode << " " << n.mtime << " " << n.data.size() << ":" << crc16_bitwise(n.data) << " " << (n.target.empty() ? "-" : hex_encode(n.target)) << "\n";
		if (n.type == 'd') for (auto &e : n.ents) walk(e.second, rel.empty() ? e.first : rel + "/" + e.first);
	};
	walk(env.fs.lookup("/w/x/y/root"), "");
	return 0;
}
