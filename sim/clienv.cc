#include "clienv.h"
#include "driver.h"
#include <cstdlib>

CliEnv::CliEnv(const Plan &p) : clockrng(p.seed, 4242, p.run) {
	fs.euid = (int) p.geti("euid", 0);
	fs.egid = fs.euid;
	fs.umask_ = (int) p.geti("umask", 022);
	fs.rng = &clockrng;
	fs.counters = &g_sim.counters;
	int u = fs.euid;
	std::string cwd = p.gets("cwd", "/w/x/y/root");
	fs.add_dir("/w", 0755, 0, 0, 1000000000);
	fs.add_dir("/w/x", 0755, 0, 0, 1000000000);
	fs.add_dir("/w/x/y", 0755, u, u, 1000000000);
	root_ino = fs.add_dir(cwd, (int) p.geti("rootmode", 0755), u, u, 1000000000);
	fs.add_file("/w/a.lzh", 0644, 0, 0, p.geti("amtime", 946684800), Bytes());
	if (!p.gets("arcname").empty()) fs.add_file(cwd + "/" + p.gets("arcname"), 0644, 0, 0, p.geti("amtime", 946684800), Bytes());
	if (p.geti("canary", 0)) {
		// a tree beside the extraction root that nothing may touch
		canary_ino = fs.add_dir("/w/x/y/canary", 0777, u, u, 1100000000);
		fs.add_file("/w/x/y/canary/file", 0666, u, u, 1100000001, to_bytes("canary contents"));
		fs.add_dir("/w/x/y/canary/open", 0777, u, u, 1100000002);
		fs.add_file("/w/x/y/canary/open/f2", 0644, u, u, 1100000003, to_bytes("second"));
		fs.add_file("/w/x/passwd", 0666, u, u, 1100000004, to_bytes("root:x:0:0"));
		fs.add_dir("/etc", 0777, u, u, 1100000005);
		fs.add_file("/etc/passwd", 0666, u, u, 1100000006, to_bytes("root:x:0:0"));
		fs.add_dir("/tmp", 01777, 0, 0, 1100000007);
	}
	for (auto &e : p.fs) {
		if (e.type == 'd') fs.add_dir(e.path, e.mode, e.uid, e.gid, e.mtime);
		else if (e.type == 'f') fs.add_file(e.path, e.mode, e.uid, e.gid, e.mtime, e.data);
		else fs.add_symlink(e.path, e.target, e.uid, e.gid, e.mtime);
	}
	fs.mark_preexisting();
	int err;
	fs.sys_chdir(cwd, err);
	std::string ff = p.gets("fsfaults");
	if (!ff.empty())
		for (auto &f : split_ch(ff, ',')) {
			auto w = split_ch(f, ':');
			if (w.size() == 3) fs.faults[{w[0], atoi(w[1].c_str())}] = atoi(w[2].c_str());
		}
	fs.log.clear();
}

CliResult CliEnv::run(const Plan &p, const Bytes &arch) {
	g_sim.fs = &fs;
	g_sim.clock_on = true;
	g_sim.now = p.geti("now", 1335830400);
	src.kind = p.gets("srckind", "FILE_SEEK");
	src.data = &arch;
	src.trunc = p.geti("trunc", -1);
	src.errat = p.geti("errat", -1);
	src.endless = (int) p.geti("endless", 0);
	src.mtime = p.geti("amtime", 946684800);
	g_sim.archive_src = &src;
	g_sim.archive_ino = p.gets("arcname").empty() ? fs.lookup("/w/a.lzh") : fs.lookup(p.gets("cwd", "/w/x/y/root") + "/" + p.gets("arcname"));
	g_sim.out_buf = (int) p.geti("outbuf", 0);
	g_sim.write_fail_at = p.geti("write_fail_at", -1);
	g_sim.write_errno = (int) p.geti("write_errno", 28);
	g_sim.write_fail_once = (int) p.geti("write_once", 0);
	bool from_stdin = p.argv.size() > 2 && p.argv[2] == "-";
	// A-FAIL(k): the k-th allocation made by the tool or the library fails
	int64_t afail = p.geti("afail", -1);
	if (afail >= 0) { g_sim.ledger = true; g_sim.fail_at = afail; g_sim.nallocs = 0; g_sim.fail_fired = false; }
	CliResult r = run_cli(p.argv, p.stdin_script, from_stdin ? &src : nullptr);
	if (afail >= 0) {
		// the tool exits without releasing everything: drop the ledger's view of the run
		g_sim.ledger = false;
		g_sim.fail_at = -1;
		g_sim.live.clear();
		g_sim.live_bytes = 0;
	}
	g_sim.fs = nullptr;
	g_sim.clock_on = false;
	g_sim.archive_src = nullptr;
	g_sim.archive_ino = -1;
	// streams the tool left open because it exit()ed: close them so that they cannot fire at process exit
	std::vector<FILE *> open;
	for (auto &s : g_sim.streams) open.push_back(s.first);
	for (FILE *f : open) fclose(f);
	g_sim.fds.clear();
	g_sim.streams.clear();
	return r;
}

bool archive_declares_huge(const Bytes &arch, int64_t trunc) {
	Task t;
	t.kind = "FILE_SEEK";
	t.trunc = trunc;
	for (int i = 0; i < 40; ++i) { Op n; n.kind = "next"; t.ops.push_back(n); }
	DriveOpts o;
	o.stop_at_null = true;
	o.budget = 100000 + 64 * arch.size();
	bool tr = g_sim.tracing;
	g_sim.tracing = false;
	DriveOut d = drive_reader(t, arch, o);
	g_sim.tracing = tr;
	for (auto &ob : d.obs) if (!ob.hdr.null && ob.hdr.length > (4u << 20)) return true;
	return false;
}
