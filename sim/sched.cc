// Baton scheduler: task bodies run on real threads, but exactly one at a time.
// At every seam crossing the running task asks the decision function who
// proceeds; the OS never chooses.
#include "sim.h"
#include <condition_variable>
#include <mutex>
#include <thread>

Baton g_baton;
thread_local int t_task = 0;

struct Baton::Impl {
	std::mutex m;
	std::condition_variable cv;
	int turn = -1;
	std::vector<bool> done;
	std::function<int(const std::vector<int> &)> decide;
};

void Baton::run(std::vector<std::function<void()>> bodies, std::function<int(const std::vector<int> &)> decide) {
	Impl im;
	impl = &im;
	im.decide = decide;
	size_t n = bodies.size();
	im.done.assign(n, false);
	decisions.clear();
	switches = 0;
	{
		std::vector<int> all;
		for (size_t i = 0; i < n; ++i) all.push_back((int) i);
		current = -1;
		im.turn = decide(all);
		decisions.push_back(im.turn);
		current = im.turn;
	}
	active = true;
	std::vector<std::thread> th;
	for (size_t i = 0; i < n; ++i) {
		th.emplace_back([&, i]() {
			t_task = (int) i;
			{
				std::unique_lock<std::mutex> lk(im.m);
				im.cv.wait(lk, [&] { return im.turn == (int) i; });
			}
			bodies[i]();
			{
				std::unique_lock<std::mutex> lk(im.m);
				im.done[i] = true;
				std::vector<int> runnable;
				for (size_t k = 0; k < n; ++k) if (!im.done[k]) runnable.push_back((int) k);
				if (!runnable.empty()) {
					int nx = im.decide(runnable);
					decisions.push_back(nx);
					++switches;
					current = nx;
					im.turn = nx;
				} else im.turn = -2;
				im.cv.notify_all();
			}
		});
	}
	for (auto &t : th) t.join();
	active = false;
	impl = nullptr;
	t_task = 0;
}

void Baton::yield_point() {
	if (!active || !impl) return;
	Impl &im = *impl;
	int me = t_task;
	std::unique_lock<std::mutex> lk(im.m);
	if (im.turn != me) return;   // not a scheduled task (e.g. the main thread)
	std::vector<int> runnable;
	for (size_t k = 0; k < im.done.size(); ++k) if (!im.done[k]) runnable.push_back((int) k);
	if (runnable.size() < 2) return;
	int nx = im.decide(runnable);
	decisions.push_back(nx);
	if (nx == me) return;
	++switches;
	current = nx;
	im.turn = nx;
	im.cv.notify_all();
	im.cv.wait(lk, [&] { return im.turn == me; });
}
