// Thin free-running driver for the ThreadSanitizer side run of C15: several
// readers over the same archive bytes on real, unsynchronised threads. The OS
// schedules here (this is NOT the deciding search; it complements the baton
// schedule, which cannot interleave inside seam-free stretches). Oracle: no
// TSan report, and every thread observes exactly what it observes alone.
#include "gen.h"
#include <atomic>
#include <cstdlib>
#include <thread>

extern "C" {
#include "lha_reader.h"
}

extern "C" __attribute__((used, visibility("default"))) const char *__tsan_default_options() {
	return "exitcode=66:halt_on_error=1:report_signal_unsafe=0";
}

// glibc serialises mktime()/tzset() with an internal lock that the uninstrumented libc hides from TSan;
// the allocations it makes under that lock are not a race in lhasa.
extern "C" __attribute__((used, visibility("default"))) const char *__tsan_default_suppressions() {
	return "race:tzset_internal\nrace:__tzfile_read\nrace:__tzset_parse_tz\nrace:__tz_convert\n";
}

struct MemSource { const Bytes *data; size_t pos = 0; };
static int ms_read(void *h, void *buf, size_t n) {
	MemSource *s = (MemSource *) h;
	size_t k = std::min(n, s->data->size() - s->pos);
	memcpy(buf, s->data->data() + s->pos, k);
	s->pos += k;
	return (int) k;
}
static int ms_skip(void *h, size_t n) {
	MemSource *s = (MemSource *) h;
	if (s->pos + n > s->data->size()) { s->pos = s->data->size(); return 0; }
	s->pos += n;
	return 1;
}
static const LHAInputStreamType T_SKIP = {ms_read, ms_skip, nullptr};
static const LHAInputStreamType T_NOSKIP = {ms_read, nullptr, nullptr};

static uint64_t run_history(const Bytes &arch, const Task &t) {
	MemSource src{&arch, 0};
	LHAInputStream *st = lha_input_stream_new(t.kind == "CB_SKIP" ? &T_SKIP : &T_NOSKIP, &src);
	LHAReader *rd = lha_reader_new(st);
	Fnv h;
	std::vector<uint8_t> buf;
	for (auto &op : t.ops) {
		if (op.kind == "next") {
			LHAFileHeader *hd = lha_reader_next_file(rd);
			h.u64(hd ? 1 : 0);
			if (hd) {
				if (hd->path) h.str(hd->path);
				if (hd->filename) h.str(hd->filename);
				h.u64(hd->length); h.u64(hd->crc); h.str(hd->compress_method);
			}
		} else if (op.kind == "read" || op.kind == "readall") {
			size_t k = (size_t) op.arg;
			buf.resize(k + 1);
			for (int rounds = 0; rounds < 100000; ++rounds) {
				size_t n = lha_reader_read(rd, buf.data(), k);
				h.u64(n);
				h.add(buf.data(), std::min(n, k));
				if (n == 0 || op.kind == "read") break;
			}
		} else if (op.kind == "check") h.u64((uint64_t) lha_reader_check(rd, nullptr, nullptr));
		else if (op.kind == "isfake") h.u64((uint64_t) lha_reader_current_is_fake(rd));
	}
	lha_reader_free(rd);
	lha_input_stream_free(st);
	return h.h;
}

int main(int argc, char **argv) {
	if (argc < 4) { fprintf(stderr, "usage: simlha-tsan <seed> <from> <to>\n"); return 2; }
	uint64_t seed = strtoull(argv[1], nullptr, 0), from = strtoull(argv[2], nullptr, 0), to = strtoull(argv[3], nullptr, 0);
	uint64_t mismatches = 0, runs = 0;
	for (uint64_t run = from; run < to; ++run) {
		Rng rng(seed, 1515, run);
		Plan p;
		TreeOpts o;
		o.max_entries = 2 + (int) rng.below(6);
		o.max_payload = 1500;
		o.symlinks = false;
		o.bad_crc_sometimes = true;
		gen_tree(rng, o, p.members);
		BuiltArchive a = build_archive(p);
		size_t nt = 2 + rng.below(3);
		std::vector<Task> tasks(nt);
		for (auto &t : tasks) {
			t.kind = rng.chance(1, 2) ? "CB_SKIP" : "CB_NOSKIP";
			gen_history(rng, t, p.members.size(), false, 40);
		}
		std::vector<uint64_t> alone(nt), together(nt);
		for (size_t k = 0; k < nt; ++k) alone[k] = run_history(a.bytes, tasks[k]);
		std::atomic<int> go{0};
		std::vector<std::thread> th;
		for (size_t k = 0; k < nt; ++k)
			th.emplace_back([&, k]() {
				while (!go.load(std::memory_order_relaxed)) {}
				together[k] = run_history(a.bytes, tasks[k]);
			});
		go.store(1, std::memory_order_relaxed);
		for (auto &t : th) t.join();
		++runs;
		for (size_t k = 0; k < nt; ++k)
			if (alone[k] != together[k]) {
				++mismatches;
				printf("TSAN-SIDE-RUN MISMATCH run=%llu task=%zu: results differ when run concurrently with other readers\n", (unsigned long long) run, k);
			}
	}
	printf("tsan side run: %llu runs, %llu mismatches\n", (unsigned long long) runs, (unsigned long long) mismatches);
	return mismatches ? 1 : 0;
}
