// Scenario interface, registry, shrinking and the worker loop.
#pragma once
#include <memory>
#include "archive.h"
#include "sim.h"

struct Scenario {
	virtual ~Scenario() {}
	virtual const char *property() const = 0;
	// number of runs in this tier (run indices 0..n-1 are split over workers)
	virtual uint64_t total_runs(uint64_t seed, const std::string &tier) = 0;
	virtual Plan generate(uint64_t seed, uint64_t run, const std::string &tier) = 0;
	// Executes one plan. Must be a pure function of the plan and the code
	// under test. May narrow 'narrowed' to a smaller plan that fails alone.
	virtual RunResult execute(const Plan &p, Plan *narrowed) = 0;
	// property-specific shrink steps in addition to the generic ones
	virtual void extra_candidates(const Plan &p, std::vector<Plan> &out) {}
	// what the evidence file says about non-triviality
	virtual const char *nontrivial_rule() const = 0;
	virtual const char *level() const { return "exploration"; }
	virtual void describe(std::string &real, std::string &stub, std::string &assume) const {}
	// crash-class properties (sanitizer is the oracle): a dying worker is a violation
	virtual bool crash_is_violation() const { return false; }
};

void register_scenario(Scenario *s);
Scenario *find_scenario(const std::string &prop);
std::vector<Scenario *> &all_scenarios();

#define REGISTER_SCENARIO(cls) \
	static struct cls##_reg { cls##_reg() { register_scenario(new cls); } } cls##_reg_instance

// generic shrink candidates over a plan
void generic_candidates(const Plan &p, std::vector<Plan> &out);
// greedy minimisation: keeps a candidate iff the same clause and signature still fail
Plan minimise(Scenario *s, const Plan &p, const Violation &v, int budget, int *execs);

// common helpers for scenarios -------------------------------------------------

// prepares g_sim for a run (reset + standard knobs from the plan)
void begin_run(const Plan &p);

// header invariant of C11, checked on every header any scenario sees
bool c11_header_ok(const LHAFileHeader *h, std::string &why);
// terminal invariant of C18
bool c18_output_ok(const std::string &out, size_t *badpos);

// re-arms the per-run CPU watchdog (call before each evaluation of a multi-evaluation run)
void sim_watchdog_kick();

// mixes a run's counters into nontrivial/trace
uint64_t finish_trace();
