// Shared utilities for the lhasa deterministic simulator: PRNG, hashing,
// hex coding, bitwise CRC-16/ARC (independent of lib/crc16.c).
#pragma once
#include <cstdint>
#include <cstdio>
#include <cstring>
#include <map>
#include <string>
#include <vector>

typedef std::vector<uint8_t> Bytes;

// ---------------------------------------------------------------- PRNG
// xoshiro256** seeded through splitmix64. One instance per run; every
// random choice of a run is drawn from it.
struct Rng {
	uint64_t s[4];
	static uint64_t splitmix(uint64_t &x) {
		uint64_t z = (x += 0x9e3779b97f4a7c15ULL);
		z = (z ^ (z >> 30)) * 0xbf58476d1ce4e5b9ULL;
		z = (z ^ (z >> 27)) * 0x94d049bb133111ebULL;
		return z ^ (z >> 31);
	}
	Rng(uint64_t seed, uint64_t prop, uint64_t run) {
		uint64_t x = seed * 0x9e3779b97f4a7c15ULL + prop * 0xd1342543de82ef95ULL + run;
		for (int i = 0; i < 4; ++i) s[i] = splitmix(x);
	}
	static uint64_t rotl(uint64_t x, int k) { return (x << k) | (x >> (64 - k)); }
	uint64_t next() {
		uint64_t r = rotl(s[1] * 5, 7) * 9, t = s[1] << 17;
		s[2] ^= s[0]; s[3] ^= s[1]; s[1] ^= s[2]; s[0] ^= s[3];
		s[2] ^= t; s[3] = rotl(s[3], 45);
		return r;
	}
	// uniform in [0, n)
	uint64_t below(uint64_t n) { return n ? next() % n : 0; }
	// uniform in [lo, hi]
	int64_t range(int64_t lo, int64_t hi) { return lo + (int64_t) below((uint64_t)(hi - lo + 1)); }
	bool chance(unsigned num, unsigned den) { return below(den) < num; }
	template <class T> const T &pick(const std::vector<T> &v) { return v[below(v.size())]; }
	uint8_t byte() { return (uint8_t) next(); }
};

// ---------------------------------------------------------------- hashing
struct Fnv {
	uint64_t h = 0xcbf29ce484222325ULL;
	void add(const void *p, size_t n) {
		const uint8_t *b = (const uint8_t *) p;
		for (size_t i = 0; i < n; ++i) { h ^= b[i]; h *= 0x100000001b3ULL; }
	}
	void u64(uint64_t v) { add(&v, 8); }
	void str(const std::string &s) { u64(s.size()); add(s.data(), s.size()); }
	void bytes(const Bytes &b) { u64(b.size()); add(b.data(), b.size()); }
};

// ---------------------------------------------------------------- CRC-16/ARC, bit by bit
inline uint16_t crc16_bitwise(uint16_t crc, const uint8_t *p, size_t n) {
	for (size_t i = 0; i < n; ++i) {
		crc ^= p[i];
		for (int b = 0; b < 8; ++b) crc = (crc & 1) ? (uint16_t)((crc >> 1) ^ 0xA001) : (uint16_t)(crc >> 1);
	}
	return crc;
}
inline uint16_t crc16_bitwise(const Bytes &b) { return crc16_bitwise(0, b.data(), b.size()); }

// ---------------------------------------------------------------- hex / strings
std::string hex_encode(const uint8_t *p, size_t n);
inline std::string hex_encode(const Bytes &b) { return hex_encode(b.data(), b.size()); }
inline std::string hex_encode(const std::string &s) { return hex_encode((const uint8_t *) s.data(), s.size()); }
bool hex_decode(const std::string &s, Bytes &out);
Bytes hex_bytes(const std::string &s);
std::string hex_str(const std::string &s);   // decode to std::string
std::string printable(const std::string &s); // for messages: escape non-printables
std::vector<std::string> split_ws(const std::string &s);
std::vector<std::string> split_ch(const std::string &s, char c);
std::string json_escape(const std::string &s);
std::string strf(const char *fmt, ...) __attribute__((format(printf, 1, 2)));

inline Bytes to_bytes(const std::string &s) { return Bytes(s.begin(), s.end()); }
inline std::string to_str(const Bytes &b) { return std::string(b.begin(), b.end()); }
inline void put16(Bytes &b, uint32_t v) { b.push_back(v & 0xff); b.push_back((v >> 8) & 0xff); }
inline void put32(Bytes &b, uint32_t v) { put16(b, v & 0xffff); put16(b, v >> 16); }
inline void set16(Bytes &b, size_t off, uint32_t v) { b[off] = v & 0xff; b[off + 1] = (v >> 8) & 0xff; }
inline void set32(Bytes &b, size_t off, uint32_t v) { set16(b, off, v & 0xffff); set16(b, off + 2, v >> 16); }
inline uint32_t get16(const Bytes &b, size_t off) { return b[off] | (b[off + 1] << 8); }
inline uint32_t get32(const Bytes &b, size_t off) { return get16(b, off) | (get16(b, off + 2) << 16); }
inline void append(Bytes &b, const Bytes &c) { b.insert(b.end(), c.begin(), c.end()); }
inline void append(Bytes &b, const std::string &c) { b.insert(b.end(), c.begin(), c.end()); }

// key=value bag with stable order, used for plan lines and counters
typedef std::map<std::string, std::string> KV;
typedef std::map<std::string, uint64_t> Counters;
