// Drives one LHAReader through a task's operation list over a simulated
// source and records everything observable at the API.
#pragma once
#include "framework.h"

struct HeaderObs {
	bool null = true;
	std::string path, name, target, method, raw_digest;
	bool has_path = false, has_name = false, has_target = false;
	uint64_t length = 0, packed = 0;
	unsigned crc = 0, level = 0, os = 0, flags = 0, perms = 0, uid = 0, gid = 0, os9 = 0, timestamp = 0;
	bool operator==(const HeaderObs &o) const {
		return null == o.null && path == o.path && name == o.name && target == o.target && method == o.method
		    && has_path == o.has_path && has_name == o.has_name && has_target == o.has_target && length == o.length
		    && packed == o.packed && crc == o.crc && level == o.level && os == o.os && flags == o.flags
		    && perms == o.perms && uid == o.uid && gid == o.gid && os9 == o.os9 && timestamp == o.timestamp
		    && raw_digest == o.raw_digest;
	}
	std::string str() const;
	bool is_dir() const { return method == "-lhd-" && !has_target; }
	bool is_link() const { return has_target; }
	std::string full() const { return path + name; }
};

struct Obs {
	std::string kind;       // next read readall check extract isfake
	HeaderObs hdr;          // next
	Bytes data;             // read / readall
	size_t asked = 0;
	int result = 0;         // check / extract / isfake
	std::string target;     // extract: path used
	bool existed_before = false;   // extract of a directory: did it exist already
	char post_type = '-';          // extract: what is at the target afterwards (- nothing, f d l)
	Bytes post_data;
	std::string post_target;
	int post_mode = 0;
	int64_t post_mtime = 0;
	int fs_errors = 0;             // extract: failed SimFS operations during the call
	int monitor_calls = 0;
	int api_state = 0;
};

struct DriveOut {
	std::vector<Obs> obs;
	bool budget = false;           // abandoned: seam budget exceeded
	std::string budget_api;
	bool open_failed = false;
	bool c11_bad = false;
	std::string c11_why;
	uint64_t src_reads = 0, src_skips = 0, src_bytes = 0, src_seeks = 0;
	size_t peak_heap = 0;
	size_t leaked_blocks = 0, leaked_bytes = 0;
	int open_handles_after = 0;
	std::string leak_sig, leak_detail;
	bool freed = false;
	bool alloc_fail_misreported = false;
	std::string alloc_fail_detail;
};

struct DriveOpts {
	bool ledger = false;           // count library allocations, report leaks
	int64_t fail_alloc = -1;       // A-FAIL(k)
	int64_t abandon_after = -1;    // X-ABANDON(j): free everything after j operations
	uint64_t budget = ~0ULL;       // seam step budget for the whole drive
	uint64_t max_decode = 4u << 20; // entries declaring more output than this are read in a bounded piece instead of decoded in full
	bool stop_at_null = false;     // stop executing operations once next returns NULL
	bool by_name = false;          // open through lha_input_stream_from(path) on SimFS
	std::string by_name_path;
};

HeaderObs observe_header(const LHAFileHeader *h);
DriveOut drive_reader(const Task &t, const Bytes &archive, const DriveOpts &o);

// canonical traversal: FILE_SEEK, next + read everything (+ check verdict via a second pass)
struct Canon {
	std::vector<HeaderObs> H;
	std::vector<Bytes> B;       // bytes obtainable through read
	std::vector<int> V;         // check verdicts
	bool ok = true;
};
Canon canonical(const Bytes &archive, uint64_t budget);
