// Stream-seam scenarios: C16 (same members through every kind of input
// stream and behind a self-extractor prefix) and C13 (bounded liveness in
// seam steps, bounded heap).
#include "clienv.h"
#include "driver.h"
#include "gen.h"

static const char *KINDS[] = {"FILE_SEEK", "FILE_PIPE", "FILE_HALFSEEK", "CB_SKIP", "CB_SKIP+", "CB_NOSKIP"};

static void apply_kind(Task &t, const std::string &k) {
	t.kind = k;
	t.skippast = 0;
	if (k == "CB_SKIP+") { t.kind = "CB_SKIP"; t.skippast = 1; }
}

// Statement's pattern for "contains an archive-method signature": '-l??-' or '-pm?-'.
static bool sig_at(const Bytes &b, size_t i) {
	if (i + 4 >= b.size()) return false;
	if (b[i] != '-' || b[i + 4] != '-') return false;
	return b[i + 1] == 'l' || (b[i + 1] == 'p' && b[i + 2] == 'm');
}
static bool marker_at(const Bytes &b, size_t i) {
	static const char *m1 = "LHA-SFX", *m2 = "LhASFX V1.2,";
	if (i + 7 <= b.size() && !memcmp(&b[i], m1, 7)) return true;
	if (i + 12 <= b.size() && !memcmp(&b[i], m2, 12)) return true;
	return false;
}

// make the first 'n' bytes of P+A free of signatures and markers (independent scanner)
static void scrub(Bytes &pa, size_t from, size_t n, Rng &rng) {
	for (int pass = 0; pass < 4; ++pass) {
		bool dirty = false;
		for (size_t i = from > 12 ? from - 12 : 0; i < n; ++i) {
			if (sig_at(pa, i) || marker_at(pa, i)) {
				size_t fix = i >= from ? i : from;   // only bytes of the region may change
				if (fix < n) pa[fix] = (uint8_t)('a' + rng.below(26));
				dirty = true;
			}
		}
		if (!dirty) break;
	}
}

struct Pass { std::vector<HeaderObs> H; std::vector<Bytes> B; std::vector<int> V; bool budget = false; };

static Pass traverse(const Bytes &arch, const Task &base, const char *mode, uint64_t budget, DriveOut *last = nullptr) {
	Task t = base;
	t.ops.clear();
	for (int i = 0; i < 64; ++i) {
		Op n; n.kind = "next"; t.ops.push_back(n);
		if (!strcmp(mode, "read")) { Op r; r.kind = "readall"; r.arg = 997; t.ops.push_back(r); }
		else if (!strcmp(mode, "check")) { Op r; r.kind = "check"; t.ops.push_back(r); }
	}
	DriveOpts o;
	o.budget = budget;
	o.stop_at_null = true;
	DriveOut d = drive_reader(t, arch, o);
	Pass p;
	p.budget = d.budget;
	for (size_t i = 0; i < d.obs.size(); ++i) {
		if (d.obs[i].kind == "next") { if (d.obs[i].hdr.null) break; p.H.push_back(d.obs[i].hdr); }
		else if (d.obs[i].kind == "readall") p.B.push_back(d.obs[i].data);
		else if (d.obs[i].kind == "check") p.V.push_back(d.obs[i].result);
	}
	if (last) *last = d;
	return p;
}

// ---------------------------------------------------------------- C16

struct C16 : Scenario {
	const char *property() const override { return "C16"; }
	uint64_t total_runs(uint64_t, const std::string &tier) override { return tier == "quick" ? 6000 : 300000; }
	const char *nontrivial_rule() const override {
		return "a run is one archive (generated members, optional truncation offset) and one prefix (none / random bytes of a "
		       "chosen length / filler+marker+decoy header+stub) traversed three ways (read all, list only, check) through each of "
		       "6 stream kinds (18 evaluations); non-trivial = at least one member yielded and (prefix non-empty or truncated or >= 2 "
		       "members); distinct = distinct trace hash. Prefix lengths 0..64 are enumerated exhaustively by run index modulo in "
		       "every tier; lengths 24n+d (d in -13..13) and 255 KiB - d are sampled.";
	}
	void describe(std::string &real, std::string &stub, std::string &assume) const override {
		real = "lib/lha_input_stream.c, lha_basic_reader.c, lha_reader.c, lha_file_header.c, ext_header.c, decoders (unmodified)";
		stub = "archive source: fopencookie FILE (seekable / no seek function / ftell ok but fseek fails ESPIPE), callbacks with skip "
		       "(refusing or accepting skips past the end) and without skip";
		assume = "sources answer short only at end of input (fread contract); real kernel pipes are represented by non-seekable cookie streams";
	}
	Plan generate(uint64_t seed, uint64_t run, const std::string &tier) override {
		Rng rng(seed, 16, run);
		Plan p;
		p.scenario = "stream_kinds";
		TreeOpts o;
		o.max_entries = 5;
		o.max_payload = 600;
		o.tzoff = 0;
		o.bad_crc_sometimes = true;
		o.ghosts = true;
		o.full_payload_sometimes = rng.chance(1, 10);
		gen_tree(rng, o, p.members);
		if (rng.chance(1, 8)) {
			// the last member declares far more compressed data than the input holds (2 GiB and beyond included)
			static const int64_t big[] = {0x7fffffffLL, 0x80000000LL, 0x80000001LL, 0xffffffffLL, 0xfffffff0LL, 0x90000000LL, 100000, 0x7ffffff0LL};
			Member &lm = p.members.back();
			if (lm.kind == 'f') {
				lm.packed = big[rng.below(8)];
				if (rng.chance(1, 2)) {
					// 2^32 minus the distance back to the start of some member: a skip that wraps to a negative seek lands on a header
					BuiltArchive ax = build_archive(p);
					size_t j = rng.below(ax.layout.size());
					size_t after_last_header = ax.layout.back().start + ax.layout.back().hdr_len;
					lm.packed = (int64_t)(0x100000000ULL - (after_last_header - ax.layout[j].start));
				}
				p.sets("huge_packed", "1");
			}
		}
		Task t;
		BuiltArchive a0 = build_archive(p);
		if (rng.chance(1, 3)) t.trunc = (int64_t) rng.below(a0.bytes.size() + 1);   // relative to A; shifted by the prefix at run time
		p.tasks.push_back(t);
		if (rng.chance(1, 2)) { static const char *cc[] = {"t", "l", "v", "tq1", "lv", "vv", "tq0", "lq"}; p.sets("clicmd", cc[rng.below(8)]); }
		if (rng.chance(1, 5)) p.seti("lead", 1 + (int64_t) rng.below(2));
		// something behind the end-of-archive marker: junk, or a whole second archive (same for every stream kind)
		if (rng.chance(1, 6)) p.seti("trailer", 1 + (int64_t) rng.below(3));
		// before anything else, the process reads another input: a self-extractor stub with its marker but nothing behind it
		// (streams are independent objects: what one search for a header went through is no business of the next)
		if (rng.chance(1, 4)) p.seti("stub_first", 1 + (int64_t) rng.below(3));
		// a file called "-" in the working directory of the tool runs ("-" still means standard input)
		if (rng.chance(1, 4)) p.seti("dash_file", 1);
		// prefix
		int mode = (int) (run % 8);
		size_t plen = 0;
		if (mode <= 2) plen = (size_t)((run / 8) % 65);                       // exhaustive 0..64 over run indices
		else if (mode == 3) plen = 24 * (1 + rng.below(40)) + rng.below(27) - 13;
		else if (mode == 4) plen = 0;
		else if (mode == 5) plen = rng.below(3000);
		else if (mode == 6) {
			// long self-extractor stubs: around 128 KiB, in between, and right below the 256 KiB limit
			switch (rng.below(tier == "quick" ? 6 : 3)) {
				case 0: plen = 131072 - 20 + rng.below(60); break;
				case 1: plen = 140000 + rng.below(100000); break;
				case 2: plen = 255 * 1024 - rng.below(40); break;
				default: plen = 20000 - rng.below(40); break;
			}
		}
		// mode 7: decoy
		if (mode == 7) {
			size_t fill = rng.below(200);
			p.seti("prefix_fill", (int64_t) fill);
			p.seti("prefix_seed", (int64_t) rng.below(1000000));
			Bytes pre;
			size_t s1 = rng.below(30);
			for (size_t i = 0; i < s1; ++i) pre.push_back(rng.byte());
			size_t marker_pos = pre.size();
			std::string marker = rng.chance(1, 2) ? "LHA-SFX" : "LhASFX V1.2,";
			append(pre, marker);
			size_t gap = rng.below(40);
			for (size_t i = 0; i < gap; ++i) pre.push_back(rng.byte());
			// decoy: a header-like block of level 0..2 with a method signature
			size_t decoy_pos = pre.size();
			Member dm;
			dm.level = (int) rng.below(3);
			dm.method = rng.chance(1, 2) ? "-lh5-" : (rng.chance(1, 2) ? "-lh0-" : "-lz5-");
			dm.inname = to_bytes("decoy");
			if (dm.level == 2) { ExtHdr e; e.type = 1; e.data = to_bytes("decoy"); dm.ext.push_back(e); }
			dm.data = {1, 2, 3};
			dm.plain = {1, 2, 3};
			MemberLayout lay;
			Bytes db;
			build_member(dm, db, lay);
			append(pre, db);
			size_t s2 = rng.below(60);
			for (size_t i = 0; i < s2; ++i) pre.push_back(rng.byte());
			// scrub everything except the marker and the decoy's signature
			Bytes pa = pre;
			append(pa, a0.bytes);
			for (int pass = 0; pass < 6; ++pass) {
				bool dirty = false;
				for (size_t i = 0; i < pre.size(); ++i) {
					bool is_decoy_sig = i == decoy_pos + 2;
					bool is_marker = i == marker_pos;
					if ((sig_at(pa, i) && !is_decoy_sig) || (marker_at(pa, i) && !is_marker)) {
						// change a byte of the match that is neither marker nor decoy signature
						for (size_t k = i; k < i + 12 && k < pre.size(); ++k) {
							bool prot = (k >= marker_pos && k < marker_pos + marker.size()) || (k >= decoy_pos + 2 && k < decoy_pos + 7);
							if (!prot && (pa[k] == '-' || pa[k] == 'L')) { pa[k] = 'x'; dirty = true; break; }
						}
					}
				}
				if (!dirty) break;
			}
			p.prefix.assign(pa.begin(), pa.begin() + pre.size());
			p.sets("prefix_kind", "decoy");
		} else if (plen > 0) {
			// long prefixes: filler (never '-' or 'L') generated at run time from a seed, then a random tail
			size_t tail = std::min<size_t>(plen, 64 + rng.below(64));
			size_t fill = plen - tail;
			if (fill) { p.seti("prefix_fill", (int64_t) fill); p.seti("prefix_seed", (int64_t) rng.below(1000000)); }
			Bytes pa(tail);
			for (auto &b : pa) b = rng.byte();
			if (rng.chance(1, 3)) {
				// near misses: text that resembles a self-extractor marker or a method signature without being one
				// (another version number, a marker cut short, a signature with a wrong frame)
				static const char *near[] = {"LhASFX V1.3,", "LhASFX V2.0 ", "LhASFX V1.2 ", "LhASFX ", "LHA-SF", "LHA-SFY", "LHA_SFX", "lha-sfx", "LHA-SF\0X",
				                             "-lh5", "lh5-", "-Lh5-", "-l5-", "-lh55-", "-pn1-", "_lh0-", "-p m-", "-pm", "LhASFX V1.2;",
				                             "-LH5-", "-LZS-", "-PM2-", "-Lz5-", "-lH0-", "-pM0-"};
				int nn = 1 + (int) rng.below(3);
				for (int k = 0; k < nn; ++k) {
					std::string s = near[rng.below(25)];
					if (s.size() < tail) memcpy(&pa[rng.below(tail - s.size())], s.data(), s.size());
				}
				p.sets("near_miss", "1");
			}
			append(pa, a0.bytes);
			scrub(pa, 0, tail, rng);
			p.prefix.assign(pa.begin(), pa.begin() + tail);
			p.sets("prefix_kind", "random");
		}
		return p;
	}
	static Bytes filler(uint64_t seed, size_t n) {
		Bytes f(n);
		uint64_t x = seed * 0x9e3779b97f4a7c15ULL + 12345;
		for (size_t i = 0; i < n; ++i) {
			uint64_t z = Rng::splitmix(x);
			uint8_t b = (uint8_t) z;
			if (b == '-' || b == 'L') b = (uint8_t)(b + 1);
			f[i] = b;
		}
		return f;
	}
	RunResult execute(const Plan &p, Plan *) override {
		begin_run(p);
		RunResult res;
		Plan bare = p;
		bare.prefix.clear();
		BuiltArchive a = build_archive(bare);
		if (p.geti("trailer", 0)) {
			int tk = (int) p.geti("trailer");
			if (a.bytes.empty() || a.bytes.back() != 0) a.bytes.push_back(0);
			if (tk == 1) { Fnv h; h.u64(p.run); for (int i = 0; i < 90; ++i) { h.u64((uint64_t) i); a.bytes.push_back((uint8_t) (h.h >> 13)); } }
			else if (tk == 2) { Bytes again = a.bytes; append(a.bytes, again); }
			else { static const char tr[] = "\0\0-lh5-\0 trailing text with a signature -lz5- in it"; append(a.bytes, std::string(tr, sizeof tr - 1)); }
			count("kind.trailer_after_end_marker");
		}
		Bytes full = filler((uint64_t) p.geti("prefix_seed"), (size_t) p.geti("prefix_fill"));
		append(full, p.prefix);
		size_t plen = full.size();
		append(full, a.bytes);
		Task base = p.tasks.empty() ? Task() : p.tasks[0];
		uint64_t budget = 4096 + 8 * full.size();
		uint64_t evals = 0;
		if (p.geti("stub_first", 0)) {
			Bytes stub;
			Fnv h; h.u64(p.run);
			for (int i = 0; i < 200; ++i) { h.u64((uint64_t) i); uint8_t b = (uint8_t) (h.h >> 17); stub.push_back(b == '-' || b == 'L' ? 'x' : b); }
			std::string mk = p.geti("stub_first") == 2 ? "LhASFX V1.2," : "LHA-SFX";
			memcpy(&stub[40], mk.data(), mk.size());
			if (p.geti("stub_first") == 3) stub.resize(40 + mk.size() + 3);
			Task st = base;
			st.trunc = st.errat = -1; st.skipfail = -1;
			apply_kind(st, KINDS[p.run % 6]);
			Pass q0 = traverse(stub, st, "list", 4096 + 8 * stub.size());
			if (!q0.H.empty()) res.fail("C16.harness", "harness", "a stub without any header yielded members");
			count("kind.stub_without_header_read_first");
		}
		// reference: seekable file, no prefix
		Task ref = base;
		apply_kind(ref, "FILE_SEEK");
		Pass r0 = traverse(a.bytes, ref, "read", budget);
		Pass r1 = traverse(a.bytes, ref, "list", budget);
		Pass r2 = traverse(a.bytes, ref, "check", budget);
		evals += 3;
		if (r0.budget || r1.budget || r2.budget) { res.fail("C16.budget", "budget:FILE_SEEK", "reference traversal exceeded the step budget"); }
		// the reference must agree with itself across traversal modes
		auto same_headers = [](const std::vector<HeaderObs> &x, const std::vector<HeaderObs> &y) {
			if (x.size() != y.size()) return false;
			for (size_t i = 0; i < x.size(); ++i) if (!(x[i] == y[i])) return false;
			return true;
		};
		Task shifted = base;
		if (shifted.trunc >= 0) shifted.trunc += (int64_t) plen;
		if (shifted.errat >= 0) shifted.errat += (int64_t) plen;
		for (int k = 0; k < 6 && res.ok; ++k) {
			Task t = shifted;
			apply_kind(t, KINDS[k]);
			const char *modes[] = {"read", "list", "check"};
			for (int m = 0; m < 3 && res.ok; ++m) {
				Pass q = traverse(full, t, modes[m], budget);
				++evals;
				std::string where = std::string(KINDS[k]) + "/" + modes[m];
				if (q.budget) { res.fail("C16.budget", std::string("budget:") + KINDS[k], where + ": traversal exceeded the step budget (call did not return)"); break; }
				if (!same_headers(q.H, r0.H)) {
					res.fail("C16.headers", std::string("headers:") + KINDS[k] + (plen ? ":prefix" : ""),
					         strf("%s: %zu headers, reference (seekable file, no prefix) has %zu%s", where.c_str(), q.H.size(), r0.H.size(),
					              q.H.size() && r0.H.size() && !(q.H[0] == r0.H[0]) ? "; first header differs" : ""));
					break;
				}
				if (m == 0 && q.B != r0.B) { res.fail("C16.data", std::string("data:") + KINDS[k], where + ": member data differs from the reference"); break; }
				if (m == 2 && q.V != r2.V) { res.fail("C16.verdicts", std::string("verdicts:") + KINDS[k], where + ": check verdicts differ from the reference"); break; }
			}
		}
		if (res.ok && (!same_headers(r1.H, r0.H) || !same_headers(r2.H, r0.H)))
			res.fail("C16.headers", "headers:modes", "seekable-file reference yields different headers when listing, reading and checking");
		// a source the caller has partly consumed already (its own wrapper: here a small archive of its own, or text with a
		// method signature): the library starts where the source stands, whatever kind of source it is
		if (res.ok && p.geti("lead", 0)) {
			Bytes lead;
			if (p.geti("lead") == 1) {
				Plan lp; Member tm; tm.level = (int) (p.run % 3); tm.method = "-lh0-"; tm.inname = to_bytes("lead"); tm.gname = "lead";
				if (tm.level == 2) { ExtHdr e; e.type = 1; e.data = to_bytes("lead"); tm.ext.push_back(e); tm.inname.clear(); }
				tm.data = to_bytes("wrapper"); tm.plain = tm.data;
				lp.members.push_back(tm);
				lead = build_archive(lp).bytes;
				while (!lead.empty() && lead.back() == 0) lead.pop_back();   // without the end-of-archive byte: the stream goes on
			} else lead = to_bytes("MZ wrapper text -lh5- more wrapper text -lz5- and so on, seventy-odd bytes of it.....");
			Bytes s2 = lead;
			append(s2, a.bytes);
			for (int k = 0; k < 6 && res.ok; ++k) {
				Task t = base;
				apply_kind(t, KINDS[k]);
				t.prepos = (int64_t) lead.size();
				if (t.trunc >= 0) t.trunc += (int64_t) lead.size();
				if (t.errat >= 0) t.errat += (int64_t) lead.size();
				Pass q = traverse(s2, t, k & 1 ? "list" : "read", budget + 8 * lead.size());
				++evals;
				if (q.budget) { res.fail("C16.budget", std::string("budget:lead:") + KINDS[k], "traversal of a partly consumed source exceeded the step budget"); break; }
				if (!same_headers(q.H, r0.H))
					res.fail("C16.headers", std::string("headers:partly_consumed_source"),
					         strf("%s: the caller had consumed %zu bytes of the source before handing it over; %zu headers, the archive that follows has %zu", KINDS[k], lead.size(), q.H.size(), r0.H.size()));
			}
			count("kind.partly_consumed_source");
		}
		// injected stream faults (a skip that fails, a read error): iteration may end early, but every header that is
		// returned must be the member that stands at that place in the reference sequence - never something else
		for (int k = 0; k < 6 && res.ok; ++k) {
			Fnv hh; hh.u64(p.run); hh.u64((uint64_t) k);
			Task t = shifted;
			apply_kind(t, KINDS[k]);
			if (hh.h & 1) t.skipfail = (int64_t)((hh.h >> 8) % 3);
			else t.errat = (int64_t)(plen + (hh.h >> 8) % (a.bytes.size() + 1));
			for (int m = 0; m < 2 && res.ok; ++m) {
				Pass q = traverse(full, t, m ? "read" : "list", budget);
				++evals;
				if (q.budget) { res.fail("C16.budget", std::string("budget:fault:") + KINDS[k], "traversal with an injected stream fault exceeded the step budget"); break; }
				bool prefix = q.H.size() <= r0.H.size();
				for (size_t i = 0; prefix && i < q.H.size(); ++i) if (!(q.H[i] == r0.H[i])) prefix = false;
				if (!prefix)
					res.fail("C16.headers_after_fault", std::string("fault:") + (t.skipfail >= 0 ? "skipfail" : "readerr"),
					         strf("%s with %s: %zu headers returned and they are not a prefix of the %zu members of the archive", KINDS[k],
					              t.skipfail >= 0 ? strf("skip call %lld failing", (long long) t.skipfail).c_str() : strf("a read error at offset %lld", (long long) t.errat).c_str(), q.H.size(), r0.H.size()));
			}
		}
		// the tool: 'lha CMD ARCHIVE' against 'lha CMD -' (stdin as a pipe and as a seekable file): same stdout, same exit status
		if (res.ok && !p.gets("clicmd").empty()) {
			std::string cmd = p.gets("clicmd");
			struct Out { std::string out; int status; bool exited, budget; };
			auto run1 = [&](const std::string &arg, const std::string &kind) {
				Plan q = p;
				q.argv = {"lha", cmd, arg};
				q.sets("srckind", kind);
				q.seti("trunc", shifted.trunc);
				q.seti("euid", 0);
				if (p.geti("dash_file", 0)) { FsEnt e; e.type = 'f'; e.path = "/w/x/y/root/-"; e.data = to_bytes("not an archive, just a file whose name is a dash\n"); e.mode = 0644; q.fs.push_back(e); }
				CliEnv env(q);
				g_sim.budget = g_sim.steps + 200000 + 64 * full.size();
				CliResult r = env.run(q, full);
				return Out{r.out, r.status, r.exited, r.budget};
			};
			Out f = run1("/w/a.lzh", "FILE_SEEK");
			Out pp = run1("-", "FILE_PIPE");
			Out ss = run1("-", "FILE_SEEK");
			evals += 3;
			if (f.budget || pp.budget || ss.budget) res.fail("C16.budget", "budget:cli", "'lha " + cmd + "' did not finish within the step budget");
			else if (f.out != pp.out || f.status != pp.status || f.exited != pp.exited)
				res.fail("C16.cli_stdin", "cli:pipe:" + cmd.substr(0, 1), strf("'lha %s ARCHIVE' and 'lha %s -' (pipe) differ: exit %d vs %d, stdout %zu vs %zu bytes", cmd.c_str(), cmd.c_str(), f.status, pp.status, f.out.size(), pp.out.size()));
			else if (f.out != ss.out || f.status != ss.status || f.exited != ss.exited)
				res.fail("C16.cli_stdin", "cli:seekable_stdin:" + cmd.substr(0, 1), strf("'lha %s ARCHIVE' and 'lha %s - < ARCHIVE' differ: exit %d vs %d", cmd.c_str(), cmd.c_str(), f.status, ss.status));
			count("kind.cli." + cmd);
		}
		g_sim.counters["evals"] = evals;
		res.ops = evals;
		res.nontrivial = !r0.H.empty() && (plen > 0 || base.trunc >= 0 || r0.H.size() >= 2);
		if (plen) count("kind.prefix." + p.gets("prefix_kind", "random"));
		if (p.gets("near_miss") == "1") count("kind.prefix.near_miss_marker_or_signature");
		if (plen <= 64) count(strf("probe.prefix_len_%02zu", plen));
		if (plen > 200000) count("probe.prefix_near_256k");
		if (base.trunc >= 0) count("probe.truncated_archive");
		if (p.gets("huge_packed") == "1") count("probe.huge_packed_last_member");
		if (r0.H.empty()) count("probe.no_member_found");
		res.trace = finish_trace();
		return res;
	}
};
REGISTER_SCENARIO(C16);

// ---------------------------------------------------------------- C13

struct C13 : Scenario {
	const char *property() const override { return "C13"; }
	const char *level() const override { return "fault_enumeration"; }
	uint64_t total_runs(uint64_t, const std::string &tier) override { return tier == "quick" ? 800 : 60000; }
	const char *nontrivial_rule() const override {
		return "a run is one archive (plain, extreme length fields, corrupted or random) and one call history; for it EVERY truncation "
		       "offset 0..len (S-EOF; capped at 1500 offsets, then strided) is executed under each of 6 stream kinds (each a separate "
		       "evaluation), plus S-ERR/S-SKIPFAIL/S-SEEKERR variants; a second family feeds decoders endless or self-referential "
		       "input with declared lengths up to 4 MiB. Oracle per evaluation: stream read+skip+seek calls <= 64 + 2*len + "
		       "output/8 + 8*ops, peak library heap <= 8 MiB + 2*len, the two next_file calls after the fault return. Non-trivial = "
		       "at least one fault fired in the run; distinct = distinct trace hash of the whole run";
	}
	void describe(std::string &real, std::string &stub, std::string &assume) const override {
		real = "whole library (unmodified)";
		stub = "archive sources of 6 kinds with truncation/error/skip-failure/seek-error faults; allocator ledger (peak live bytes of library allocations); compressed-data source for the decoder family";
		assume = "liveness is measured in seam steps (source calls), plus a CPU-time watchdog for loops that cross no seam";
	}
	Plan generate(uint64_t seed, uint64_t run, const std::string &) override {
		Rng rng(seed, 13, run);
		Plan p;
		int fam = (int) rng.below(10);
		if (fam == 0) {
			// decoder family: endless / self-referential input
			p.scenario = "decoder_endless";
			static const char *ms[] = {"-pm1-", "-pm2-", "-lh5-", "-lh1-", "-lz5-", "-lzs-", "-lh7-", "-lhx-", "-lh4-", "-lk7-", "-lh6-", "-lh0-"};
			std::string method = ms[rng.below(12)];
			p.sets("method", method);
			int style = (int) rng.below(4);
			auto pls = payloads_for(method);
			if (style == 0 && !pls.empty()) {
				const Payload *pl = rng.pick(pls);
				size_t n = rng.below(pl->comp.size() + 1);
				p.stream.assign(pl->comp.begin(), pl->comp.begin() + n);
			} else if (style == 1) p.stream.assign(rng.below(64), 0);
			else if (style == 2) p.stream.assign(rng.below(64), 0xff);
			else { p.stream.resize(rng.below(300)); for (auto &b : p.stream) b = rng.byte(); }
			static const int64_t dl[] = {4 << 20, 1 << 20, 65536, 100000, 1 << 16};
			p.seti("declared", dl[rng.below(5)]);
			p.sets("eod", rng.chance(1, 2) ? "short" : "zero");
			return p;
		}
		if (fam == 1) {
			// many small members of the methods with the largest decoder states, all decoded: heap must not grow with the
			// number of members handled (one fixed allocation per decoder, released when the reader moves on)
			p.scenario = "many_members";
			p.sets("variant", "many");
			int n = 10 + (int) rng.below(31);
			TreeOpts o;
			o.max_payload = 40;
			o.full_payload_sometimes = false;
			o.perms = false;
			o.methods = {"-lhx-", "-lh7-", "-lh6-", "-lhx-", "-lh5-", "-pm2-", "-lh1-"};
			// now and then thousands of tiny members with small decoder states: what is lost per member adds up past any constant
			bool thousands = rng.chance(1, 8);
			if (thousands) { n = 2000 + (int) rng.below(1500); o.methods = {"-lh0-", "-lz5-", "-lzs-", "-lz4-"}; o.max_payload = 24; p.sets("thousands", "1"); }
			for (int i = 0; i < n; ++i) {
				Member m = gen_file(rng, 1 + (int) rng.below(3), "", "m" + std::to_string(i) + gen_name(rng, 4), o);
				if (rng.chance(1, 2) && m.method != "-lh7-") {
					m.os = 'm';   // as MacLHA flags its members (no envelope: too short)
					// or a declared length that admits the 128-byte envelope while the data ends before it: the pass-through
					// cannot start, member after member, and whatever that path leaves behind adds up
					if (rng.chance(1, 2)) m.orig = 128 + (int64_t) rng.below(400);
				}
				p.members.push_back(m);
			}
			Task t;
			for (int i = 0; i < n + 2; ++i) {
				Op nx; nx.kind = "next"; t.ops.push_back(nx);
				Op ck; ck.kind = rng.chance(1, 2) ? "check" : "readall"; ck.arg = 700; t.ops.push_back(ck);
			}
			p.tasks.push_back(t);
			return p;
		}
		if (fam == 2) {
			// "every command of the tool returns": tool runs with truncated input, pre-existing files, a prompt whose
			// answers run out, stdin as archive
			p.scenario = "cli";
			p.sets("variant", "cli");
			TreeOpts o;
			o.max_entries = 5;
			o.max_payload = 300;
			o.mac = rng.chance(1, 4);
			o.full_payload_sometimes = false;
			gen_tree(rng, o, p.members);
			static const char *cmds[] = {"l", "v", "t", "p", "x", "e", "xn", "xf", "xq", "lv", "tq", "xi", "x", "e"};
			p.argv = {"lha", cmds[rng.below(14)], rng.chance(1, 5) ? "-" : "/w/a.lzh"};
			if (p.argv[2] == "-") p.sets("srckind", rng.chance(1, 2) ? "FILE_PIPE" : "FILE_SEEK");
			else if (rng.chance(1, 3)) p.sets("srckind", rng.chance(1, 2) ? "FILE_PIPE" : "FILE_HALFSEEK");
			BuiltArchive a = build_archive(p);
			if (rng.chance(1, 2)) p.seti("trunc", (int64_t) rng.below(a.bytes.size() + 1));
			if (rng.chance(1, 8)) p.seti("errat", (int64_t) rng.below(a.bytes.size() + 1));
			for (auto &m : p.members)
				if (m.kind == 'f' && rng.chance(1, 2)) {
					FsEnt e; e.type = 'f'; e.path = "/w/x/y/root/" + m.gpath + m.gname; e.data = to_bytes("old"); e.mode = 0644; e.uid = e.gid = 0;
					// sometimes a directory is in the way instead: it can be neither unlinked nor opened
					if (rng.chance(1, 4)) { e.type = 'd'; e.mode = 0755; e.data.clear(); }
					p.fs.push_back(e);
				}
			static const char *scripts[] = {"", "y\n", "n\n", "x\n", "\n", "a", "zz\nzz\n", "y\ny\n", "s"};
			p.stdin_script = scripts[rng.below(9)];
			return p;
		}
		if (fam == 3) {
			// a source that never reports end of input and never shows a header (a device, a peer that keeps talking):
			// the search for the first header gives up after 256 KiB, whatever the bytes say about self-extractors
			p.scenario = "endless_source";
			p.sets("variant", "endless");
			size_t n = 30 + rng.below(rng.chance(1, 2) ? 200 : 6000);
			p.raw.resize(n);
			int style = (int) rng.below(3);
			for (auto &b : p.raw) b = style == 0 ? 0 : style == 1 ? (uint8_t) ('a' + rng.below(26)) : rng.byte();
			scrub(p.raw, 0, n, rng);
			// the cycle must not form a signature or marker across its seam either: scrub the doubled string
			{ Bytes two = p.raw; two.insert(two.end(), p.raw.begin(), p.raw.end()); scrub(two, 0, two.size(), rng); p.raw.assign(two.begin() + n / 2, two.begin() + n / 2 + n); }
			int marks = (int) rng.below(4);
			for (int i = 0; i < marks; ++i) {
				const char *mk = rng.chance(1, 2) ? "LHA-SFX" : "LhASFX V1.2,";
				size_t at = rng.below(n - strlen(mk));
				memcpy(&p.raw[at], mk, strlen(mk));
			}
			if (rng.chance(1, 4)) {
				// the tool on standard input
				p.scenario = "cli";
				p.seti("endless", 1);
				static const char *cmds[] = {"l", "v", "t", "x", "p", "lq", "xf"};
				p.argv = {"lha", cmds[rng.below(7)], "-"};
				p.sets("srckind", "FILE_PIPE");
				return p;
			}
			Task t;
			t.endless = 1;
			int no = 1 + (int) rng.below(5);
			for (int i = 0; i < no; ++i) {
				Op op; op.kind = rng.chance(2, 3) ? "next" : rng.chance(1, 2) ? "read" : "check"; op.arg = 1 + (int64_t) rng.below(5000);
				t.ops.push_back(op);
			}
			p.tasks.push_back(t);
			return p;
		}
		p.scenario = "truncation_sweep";
		TreeOpts o;
		o.max_entries = 4;
		o.max_payload = 300;
		o.full_payload_sometimes = false;
		o.mac = rng.chance(1, 4);
		// the 2 MiB -lhx- state is zeroed at every open: keep it, but rarer, so that the offset sweep stays affordable
		if (!rng.chance(1, 12)) o.methods = {"-lz4-", "-lz5-", "-lzs-", "-lh0-", "-lh1-", "-lh4-", "-lh5-", "-lh6-", "-lh7-", "-lk7-", "-pm0-", "-pm1-", "-pm2-"};
		gen_tree(rng, o, p.members);
		// extreme / corrupted variants
		int var = (int) rng.below(6);
		BuiltArchive a = build_archive(p);
		if (var == 1) {
			// extreme length fields
			size_t mi = rng.below(p.members.size());
			Member &m = p.members[mi];
			switch (rng.below(5)) {
				case 0: m.packed = (int64_t)(0xffffffffu - rng.below(3)); break;
				case 1: m.orig = 0xffffffffu; break;
				case 2: if (m.level == 3) {
						// around the 1 MiB ceiling, far above it, and in between (where a mis-stated ceiling still admits the header)
						switch (rng.below(4)) {
							case 0: m.hdrlen = (int64_t) 0xffffffffu - (int64_t) rng.below(2); break;
							case 1: m.hdrlen = (1 << 20) + (int64_t) rng.below(3) - 1; break;
							case 2: m.hdrlen = (1 << 20) + 1 + (int64_t) rng.below(63u << 20); break;
							default: m.hdrlen = (int64_t) 1 << (21 + rng.below(11)); break;
						}
					} else m.hdrlen = m.level == 2 ? 0xffff : 0xff; break;
				case 3: m.packed = (int64_t) rng.below(1 << 30); m.orig = (int64_t) rng.below(1 << 22); break;
				default: {
					// level-1 chain: many / huge / unbacked extended headers
					m.level = 1;
					int n = 1 + (int) rng.below(20);
					for (int i = 0; i < n; ++i) { ExtHdr e; e.type = 0x7e; e.data.resize(rng.below(40)); m.ext.push_back(e); }
					break;
				}
			}
			p.sets("variant", "extreme");
		} else if (var == 2 && rng.chance(1, 4)) {
			// a 32-bit extended-header size of a level-3 header set to 2^32 - k: offsets computed in 32 bits wrap around
			for (size_t mi = 0; mi < p.members.size(); ++mi) {
				if (p.members[mi].level != 3) continue;
				std::vector<std::string> nf;
				for (auto &f : a.layout[mi].fields) if (f.first.compare(0, 4, "next") == 0 && f.second.len == 4) nf.push_back(f.first);
				if (nf.empty()) continue;
				const Field &fd = a.layout[mi].fields.at(nf[rng.below(nf.size())]);
				uint32_t v = (uint32_t) (0x100000000ULL - (2 + rng.below(70)));
				Patch q; q.member = (int) mi; q.off = (uint32_t) fd.off; q.op = '=';
				for (int b = 0; b < 4; ++b) q.val.push_back((uint8_t) (v >> (8 * b)));
				p.patches.push_back(q);
				break;
			}
			p.sets("variant", "wrap32");
		} else if (var == 2) {
			int n = 1 + (int) rng.below(4);
			for (int i = 0; i < n; ++i) { Patch q; gen_patch(rng, p, a, q, true); p.patches.push_back(q); }
			p.sets("variant", "corrupt");
		} else if (var == 3) {
			p.members.clear();
			size_t n = rng.below(600);
			p.raw.resize(n);
			for (auto &b : p.raw) b = rng.byte();
			// a plausible signature so that the scanner engages
			if (n > 24) { const char *s = "-lh5-"; memcpy(&p.raw[2], s, 5); p.raw[20] = (uint8_t) rng.below(5); }
			p.sets("variant", "random");
		} else p.sets("variant", "plain");
		Task t;
		gen_history(rng, t, std::max<size_t>(1, p.members.size()), false, 24);
		// members declaring gigabytes are legitimately slow to decode in full (work is bounded by the declared
		// length, as stated); such archives get histories that list or read bounded amounts only
		bool huge = false;
		for (auto &m : p.members) if (m.orig > (4 << 20) || (m.orig < 0 && false)) huge = true;
		if (huge)
			for (auto &op : t.ops)
				if (op.kind == "check" || op.kind == "readall" || op.kind == "extract") { op.kind = "read"; op.arg = 1 + (int64_t) rng.below(65536); }
		// liveness after the fault: two more next calls
		Op n1; n1.kind = "next"; t.ops.push_back(n1); t.ops.push_back(n1);
		p.tasks.push_back(t);
		return p;
	}
	static uint64_t asked_output(const Task &t) {
		uint64_t out = 0;
		for (auto &op : t.ops) if (op.kind == "read") out += (uint64_t) op.arg;
		return out;
	}
	// one evaluation; returns false and fills res on violation
	bool eval(const Plan &p, const Bytes &arch, const Task &t, RunResult &res, Plan *narrowed, Counters &fired) {
		DriveOpts o;
		o.ledger = true;
		size_t len = t.trunc >= 0 ? std::min<size_t>((size_t) t.trunc, arch.size()) : arch.size();
		// of a source that never ends, the bytes that count are those within reach of the search for the first header
		if (t.endless) len = 256 * 1024 + 64;
		// output actually requested: readall/check decode whole members -> bounded by declared sizes, capped by what the input can back
		uint64_t out_req = asked_output(t);
		uint64_t budget = 64 + 2 * (uint64_t) len + out_req / 8 + 8 * t.ops.size();
		o.budget = budget;
		g_sim.peak_bytes = 0;
		g_sim.live_bytes = 0;
		g_sim.counters.clear();
		uint64_t steps0 = g_sim.steps;
		DriveOut d = drive_reader(t, arch, o);
		for (auto &c : g_sim.counters) if (c.first.compare(0, 4, "max.") != 0) fired[c.first] += c.second;
		{
			uint64_t used = g_sim.steps - steps0;
			uint64_t pct = budget ? used * 100 / budget : 0;
			std::string k = "max.budget_used_pct." + t.kind;
			if (pct > fired[k]) fired[k] = pct;
			uint64_t hp = d.peak_heap * 100 / ((8u << 20) + 2 * len);
			if (hp > fired["max.heap_used_pct"]) fired["max.heap_used_pct"] = hp;
		}
		std::string ctx = strf("%s trunc=%lld errat=%lld", t.kind.c_str(), (long long) t.trunc, (long long) t.errat);
		auto narrow = [&]() {
			if (!narrowed) return;
			*narrowed = p;
			narrowed->scenario = "single";
			narrowed->tasks.clear();
			narrowed->tasks.push_back(t);
		};
		if (d.budget) {
			res.fail("C13.liveness", "liveness:" + t.kind + ":" + d.budget_api,
			         strf("%s: a library call (%s) made more than %llu stream calls for %zu input bytes: it does not return",
			              ctx.c_str(), d.budget_api.c_str(), (unsigned long long) budget, len));
			narrow();
			return false;
		}
		size_t heap_limit = (8u << 20) + 2 * len;
		if (d.peak_heap > heap_limit) {
			res.fail("C13.heap", "heap:" + p.gets("variant"),
			         strf("%s: peak library heap %zu bytes > 8 MiB + 2*%zu", ctx.c_str(), d.peak_heap, len));
			narrow();
			return false;
		}
		if (d.c11_bad) {
			res.fail("C11.invariant", "c11", d.c11_why);
			narrow();
			return false;
		}
		return true;
	}
	RunResult execute(const Plan &p, Plan *narrowed) override {
		begin_run(p);
		RunResult res;
		Counters fired;
		uint64_t evals = 0;
		if (p.scenario == "decoder_endless") return exec_decoder(p);
		if (p.scenario == "cli") {
			BuiltArchive a = build_archive(p);
			CliEnv env(p);
			// linear in the input plus a constant per member for the tool's own filesystem and terminal work
			g_sim.budget = 20000 + 64 * a.bytes.size();
			if (p.geti("endless", 0)) { g_sim.budget = 20000 + 4 * (256 * 1024 + 64); count("kind.variant.endless_cli"); }
			CliResult r = env.run(p, a.bytes);
			if (r.budget)
				res.fail("C13.liveness", "liveness:cli:" + p.argv[1].substr(0, 1), "'lha " + p.argv[1] + "' did not return: " + (g_sim.budget_where.empty() ? std::string("step budget exceeded") : g_sim.budget_where));
			trace_str(r.out);
			trace_u64((uint64_t) r.status);
			count("kind.variant.cli");
			count("kind.cli." + p.argv[1]);
			if (r.exited) count("probe.tool_left_through_exit");
			res.ops = 1;
			res.nontrivial = true;
			res.trace = finish_trace();
			return res;
		}
		BuiltArchive a = build_archive(p);
		const Bytes &arch = a.bytes;
		if (p.tasks.empty()) return res;
		if (p.scenario == "single") {
			eval(p, arch, p.tasks[0], res, nullptr, fired);
			for (auto &c : fired) g_sim.counters[c.first] += c.second;
			res.nontrivial = true;
			res.trace = finish_trace();
			return res;
		}
		const Task &base = p.tasks[0];
		size_t L = arch.size();
		if (p.scenario == "endless_source") {
			static const char *EK[] = {"FILE_PIPE", "FILE_HALFSEEK", "CB_SKIP", "CB_NOSKIP"};
			for (int k = 0; k < 4 && res.ok; ++k) {
				Task t = base;
				apply_kind(t, EK[k]);
				++evals;
				if (!eval(p, arch, t, res, narrowed, fired)) break;
			}
			g_sim.counters.clear();
			for (auto &c : fired) g_sim.counters[c.first] = c.second;
			g_sim.counters["evals"] = evals;
			count("kind.variant.endless_source");
			res.ops = evals;
			res.nontrivial = true;
			res.trace = finish_trace();
			return res;
		}
		if (p.scenario == "many_members") {
			for (int k = 0; k < (p.gets("thousands") == "1" ? 2 : 6) && res.ok; ++k) {
				Task t = base;
				apply_kind(t, KINDS[k]);
				++evals;
				if (!eval(p, arch, t, res, narrowed, fired)) break;
				t.trunc = (int64_t)(L - L / 3);
				++evals;
				eval(p, arch, t, res, narrowed, fired);
			}
			g_sim.counters.clear();
			for (auto &c : fired) g_sim.counters[c.first] = c.second;
			g_sim.counters["evals"] = evals;
			count("kind.variant.many_members");
			res.ops = evals;
			res.nontrivial = true;
			res.trace = finish_trace();
			return res;
		}
		size_t stride = L > 1500 ? (L + 1499) / 1500 : 1;
		// fault-free run under each kind, then every truncation offset under each kind
		for (int k = 0; k < 6 && res.ok; ++k) {
			Task t = base;
			apply_kind(t, KINDS[k]);
			++evals;
			if (!eval(p, arch, t, res, narrowed, fired)) break;
			for (size_t off = 0; off <= L && res.ok; off += stride) {
				t.trunc = (int64_t) off;
				++evals;
				if (!eval(p, arch, t, res, narrowed, fired)) break;
			}
			t.trunc = -1;
			// read errors at a few offsets; skip failures; seek errors
			for (int e = 0; e < 6 && res.ok; ++e) {
				Task u = t;
				Fnv h; h.u64(p.run); h.u64((uint64_t) k); h.u64((uint64_t) e);
				u.errat = (int64_t)(h.h % (L + 1));
				// lasting errors (EIO) and transient ones (a read interrupted once, EINTR / EAGAIN, after which the source goes on)
				if (e & 1) { u.erronce = 1; u.errerrno = (e & 2) ? 11 : 4; }
				++evals;
				if (!eval(p, arch, u, res, narrowed, fired)) break;
			}
			// the interrupted read right at the end of input: nothing follows it
			if (res.ok) {
				Task u = t;
				u.errat = (int64_t) L; u.erronce = 1; u.errerrno = 4;
				++evals;
				eval(p, arch, u, res, narrowed, fired);
			}
			for (int s = 0; s < 3 && res.ok; ++s) {
				Task u = t;
				u.skipfail = s;
				++evals;
				if (!eval(p, arch, u, res, narrowed, fired)) break;
			}
			if (!strcmp(KINDS[k], "FILE_HALFSEEK") && res.ok) {
				Task u = t;
				u.seekerr = 1;
				++evals;
				eval(p, arch, u, res, narrowed, fired);
			}
		}
		g_sim.counters.clear();
		for (auto &c : fired) g_sim.counters[c.first] = c.second;
		g_sim.counters["evals"] = evals;
		count("kind.variant." + p.gets("variant", "plain"));
		res.ops = evals;
		res.nontrivial = true;
		res.trace = finish_trace();
		return res;
	}
	RunResult exec_decoder(const Plan &p);
};

extern "C" LHADecoderType *lha_decoder_for_name(char *name);

struct EndlessSrc {
	const Bytes *data; size_t pos = 0; bool zero; bool dead = false; uint64_t calls = 0;
	static size_t cb(void *buf, size_t n, void *u) {
		EndlessSrc *s = (EndlessSrc *) u;
		++s->calls;
		sim_seam("comp.read", n, s->pos, true);
		memset(buf, 0xA5, n);
		if (s->dead) return 0;
		size_t rem = s->data->size() - s->pos;
		if (n > rem) { if (s->zero) { s->dead = true; return 0; } n = rem; }
		if (n) memcpy(buf, s->data->data() + s->pos, n);
		s->pos += n;
		return n;
	}
};

RunResult C13::exec_decoder(const Plan &p) {
	RunResult res;
	std::string method = p.gets("method");
	LHADecoderType *dt = lha_decoder_for_name((char *) method.c_str());
	if (!dt) return res;
	size_t declared = (size_t) p.geti("declared");
	EndlessSrc src;
	src.data = &p.stream;
	src.zero = p.gets("eod") == "zero";
	jmp_buf jb;
	t_budget_jb = &jb;
	// linear in input present plus output requested (a source at end of data may be asked again per output unit)
	g_sim.budget = 256 + 4 * p.stream.size() + 2 * declared;
	g_sim.ledger = true;
	if (setjmp(jb) != 0) {
		t_inlib = 0;
		g_sim.ledger = false;
		RunResult b;
		b.fail("C13.liveness", "liveness:decoder:" + method, "decoder asked its source more often than 256 + 4*len + 2*declared: decoding does not stop");
		b.trace = finish_trace();
		return b;
	}
	size_t total = 0;
	{
		LibScope ls("decode");
		LHADecoder *d = lha_decoder_new(dt, EndlessSrc::cb, &src, declared);
		if (d) {
			Bytes buf(65536);
			for (;;) {
				size_t n = lha_decoder_read(d, buf.data(), buf.size());
				total += n;
				if (n == 0) break;
				if (total > declared) break;
			}
			lha_decoder_free(d);
		}
	}
	t_budget_jb = nullptr;
	g_sim.ledger = false;
	if (total > declared) res.fail("C13.declared_length", "declared:" + method, strf("decoder produced %zu bytes, declared %zu", total, declared));
	if (g_sim.peak_bytes > (8u << 20) + 2 * p.stream.size())
		res.fail("C13.heap", "heap:decoder:" + method, strf("peak heap %zu", g_sim.peak_bytes));
	for (auto &e : g_sim.live) (void) e;
	g_sim.live.clear();
	count("kind.decoder." + method);
	if (total == declared) count("probe.endless_reached_declared");
	if (src.dead || src.pos == p.stream.size()) count("fault.S-EOF");
	trace_u64(total);
	res.ops = src.calls;
	res.nontrivial = true;
	res.trace = finish_trace();
	return res;
}
REGISTER_SCENARIO(C13);
