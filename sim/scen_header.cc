// Header-level scenarios: C12 (single stored-byte faults on headers against an
// independent integrity checker) and C11 (hostile path/name strings; the path
// invariant is also monitored in every other reader scenario).
#include "driver.h"
#include "gen.h"
#include <algorithm>

// ---------------------------------------------------------------- independent framing checker (DESIGN appendix E)

static uint32_t u16at(const uint8_t *s, size_t o) { return s[o] | (s[o + 1] << 8); }
static uint32_t u32at(const uint8_t *s, size_t o) { return u16at(s, o) | (u16at(s, o + 2) << 16); }

struct ExtSeen { uint8_t type; size_t data_off, data_len; };

// Returns a non-empty reason if the header starting at S (n bytes to the end of
// input) fails its own integrity rules; "" if no rule is violated.
static std::string integrity_fail(const uint8_t *S, size_t n) {
	if (n < 22) return "input shorter than the common header part";
	unsigned level = S[20];
	if (level > 3) return "level above 3";
	std::vector<ExtSeen> ext;
	size_t raw_len = 0;
	bool inname_nonempty = false, inname_sep = false;
	if (level <= 1) {
		size_t hl = S[0];
		size_t min = level ? 25 : 22;
		if (hl < min) return "header length below the level minimum";
		if (n < hl + 2) return "header length points past the end of input";
		unsigned sum = 0;
		for (size_t i = 2; i < 2 + hl; ++i) sum += S[i];
		if ((sum & 0xff) != S[1]) return "byte sum differs from the checksum byte";
		size_t nl = S[21];
		if (min + nl > hl) return "name length points outside the header";
		inname_nonempty = nl > 0;
		for (size_t i = 0; i < nl; ++i) if (S[22 + i] == '/' || S[22 + i] == '\\') inname_sep = true;
		raw_len = hl + 2;
		if (level == 1) {
			size_t next = u16at(S, hl);
			size_t pos = hl + 2;
			// the 'skip size' field of a level-1 header covers the extended headers and the data: every extended header has
			// to fit into what the ones before it left of it
			uint64_t skip_left = u32at(S, 7);
			while (next != 0) {
				if (next > skip_left) return "level-1 extended headers exceed the skip size";
				skip_left -= next;
				if (next < 3) return "level-1 extended header size below 3";
				if (pos + next > n) return "level-1 extended header runs past the end of input";
				ext.push_back({S[pos], pos + 1, next - 3});
				size_t nn = u16at(S, pos + next - 2);
				pos += next;
				next = nn;
			}
			raw_len = pos;
		}
	} else if (level == 2) {
		size_t t = u16at(S, 0);
		if (t < 26) return "level-2 header length below 26";
		size_t raw = t + (S[23] == 'K' ? 2 : 0);
		if (n < raw) return "level-2 header length points past the end of input";
		raw_len = raw;
		size_t off = 24;
		size_t avail = raw - 24 - 2;
		while (off + 2 <= raw) {
			size_t len = u16at(S, off);
			if (len == 0) break;
			if (len < 3 || len > avail) return "level-2 extended header size overruns the header";
			ext.push_back({S[off + 2], off + 3, len - 3});
			off += len;
			avail -= len;
		}
	} else {
		if (n < 32) return "input shorter than a level-3 base header";
		size_t t = u32at(S, 24);
		if (t < 32) return "level-3 header length below 32";
		if (n < t) return "level-3 header length points past the end of input";
		raw_len = t;
		size_t off = 28;
		size_t avail = t - 28 - 4;
		while (off + 4 <= t) {
			size_t len = u32at(S, off);
			if (len == 0) break;
			if (len < 5 || len > avail) return "level-3 extended header size overruns the header";
			ext.push_back({S[off + 4], off + 5, len - 5});
			off += len;
			avail -= len;
		}
	}
	// common CRC
	{
		Bytes raw(S, S + raw_len);
		bool have = false;
		unsigned stored = 0;
		for (auto &e : ext)
			if (e.type == 0x00 && e.data_len >= 2) {
				have = true;
				stored = u16at(S, e.data_off);
				raw[e.data_off] = 0;
				raw[e.data_off + 1] = 0;
			}
		if (have && crc16_bitwise(raw) != stored) return "common-CRC extended header does not match the header bytes";
	}
	// names
	bool is_dir = !memcmp(S + 2, "-lhd-", 5);
	bool name_hdr = false, path_hdr = false;
	for (auto &e : ext) {
		if (e.type == 0x01 && e.data_len >= 1) name_hdr = true;
		if (e.type == 0x02 && e.data_len >= 1) path_hdr = true;
	}
	bool path_source = path_hdr || inname_sep;
	// Amiga LHA writes some directories as -lh0- entries without a name and with length 0: they are directories
	// (OS byte: level 1 behind the CRC, levels 2/3 at offset 23; a level-0 header has none)
	if (!is_dir && level >= 1 && !inname_nonempty && !name_hdr && !memcmp(S + 2, "-lh0-", 5) && u32at(S, 11) == 0) {
		uint8_t os = level == 1 ? S[24 + S[21]] : S[23];
		if (os == 'A') is_dir = true;
	}
	if (!is_dir) {
		// no byte of an in-header name and no file-name header: there is nothing a file name could come from, whatever
		// path the header carries
		if (!inname_nonempty && !name_hdr) return "file entry without a name";
	} else {
		bool symlink_bits = false;
		for (auto &e : ext)
			if (e.type == 0x50 && e.data_len >= 2 && (u16at(S, e.data_off) & 0170000) == 0120000) symlink_bits = true;
		if (level == 0) {
			size_t nl = S[21];
			size_t hl = S[0];
			if (hl > 22 + nl) {
				size_t eo = 24 + nl, el = hl - 22 - nl;
				if (el >= 12 && (S[eo] == 'U' || S[eo] == 'K') && S[eo + 1] == 0
				    && (u16at(S, eo + el - 6) & 0170000) == 0120000) symlink_bits = true;
			}
		}
		// OS-9 permission sources can be translated into Unix bits too; treat any of them as "may be a symlink"
		for (auto &e : ext) if (e.type == 0xcc) symlink_bits = true;
		if (level == 0 && S[0] > 22u + S[21] && S[24 + S[21]] == '9') symlink_bits = true;
		if (!path_source && !symlink_bits) return "directory entry without a path";
		// a would-be symbolic link is "name|target": without a '|' in any name source there is no link to speak of, and
		// without a path source no directory either
		bool bar = false;
		if (level <= 1) for (size_t i = 0; i < S[21]; ++i) if (S[22 + i] == '|') bar = true;
		for (auto &e : ext) if (e.type == 0x01) for (size_t i = 0; i < e.data_len; ++i) if (S[e.data_off + i] == '|') bar = true;
		if (!path_source && !bar) return "directory entry without a path";
	}
	return "";
}

// offsets (relative to the header start) of the two data bytes of every common-CRC extended header of a well-formed header
static std::vector<size_t> common_crc_offsets(const uint8_t *S, size_t n) {
	std::vector<size_t> out;
	if (n < 26) return out;
	int level = S[20];
	if (level == 1) {
		size_t hl = S[0];
		if (hl + 2 > n) return out;
		size_t next = u16at(S, hl), pos = hl + 2;
		while (next >= 3 && pos + next <= n) {
			if (S[pos] == 0x00 && next >= 5) out.push_back(pos + 1);
			size_t nn = u16at(S, pos + next - 2);
			pos += next;
			next = nn;
		}
	} else if (level == 2 || level == 3) {
		size_t fs = level == 2 ? 2 : 4, off = level == 2 ? 24 : 28;
		size_t total = level == 2 ? u16at(S, 0) : u32at(S, 24);
		if (total > n) return out;
		while (off + fs <= total) {
			size_t len = level == 2 ? u16at(S, off) : u32at(S, off);
			if (len < fs + 1 || off + len > total) break;
			if (S[off + fs] == 0x00 && len >= fs + 3) out.push_back(off + fs + 1);
			off += len;
		}
	}
	return out;
}

// ---------------------------------------------------------------- C12

struct C12 : Scenario {
	const char *property() const override { return "C12"; }
	const char *level() const override { return "fault_enumeration"; }
	uint64_t total_runs(uint64_t, const std::string &tier) override { return tier == "quick" ? 512 : 12000; }
	const char *nontrivial_rule() const override {
		return "a run is one generated well-formed header (levels 0-3, with/without extended headers, common-CRC header, Unix area; file, "
		       "directory or symlink; placed second after a tiny valid member; followed by its data and another member, or by nothing); "
		       "for it EVERY single-byte substitution (255 values at every header byte), EVERY truncation length and length-field "
		       "perturbations (+-1, +-2, 0, max on every length/size field) are applied as stored-byte faults, each one evaluation, "
		       "stream kinds rotating. Oracle (one direction): whenever the independent framing checker says the faulted header fails "
		       "its own rules, next_file must not return it and must report end afterwards. Non-trivial run = at least one fault judged "
		       "FAIL and at least one judged PASS; distinct = distinct trace hash (header bytes and all verdicts)";
	}
	void describe(std::string &real, std::string &stub, std::string &assume) const override {
		real = "lib/lha_file_header.c, ext_header.c, crc16.c, lha_basic_reader.c, lha_reader.c, lha_input_stream.c (unmodified)";
		stub = "archive sources (6 kinds, rotating); stored-byte faults applied to the served bytes";
		assume = "the checker asserts only the rules of DESIGN appendix E (nothing when it passes a header); exhaustive over single-byte faults only for the sampled headers";
	}
	Plan generate(uint64_t seed, uint64_t run, const std::string &) override {
		Rng rng(seed, 12, run);
		Plan p;
		p.scenario = "header_faults";
		// member 0: tiny valid member
		Member tiny;
		tiny.level = 0;
		tiny.method = "-lh0-";
		tiny.inname = to_bytes("t");
		tiny.data = {0x41};
		tiny.plain = {0x41};
		tiny.gname = "t";
		p.members.push_back(tiny);
		TreeOpts o;
		o.level = (int)(run % 4);
		o.max_payload = 40;
		o.full_payload_sometimes = false;
		int kind = (int) rng.below(6);
		std::string dir = rng.chance(1, 2) ? gen_name(rng, 6) + "/" : "";
		Member m;
		if (kind <= 3) m = gen_file(rng, o.level, dir, gen_name(rng, 8), o);
		else if (kind == 4) m = gen_dir(rng, o.level, gen_name(rng, 6) + "/", o);
		else m = gen_symlink(rng, o.level, dir, gen_name(rng, 5), rng.chance(1, 2) ? "../" + gen_name(rng, 4) : gen_name(rng, 6), o);
		if (m.os == 'K' && m.level == 2) m.os = 'U';
		if (m.kind == 'd' && m.level >= 1 && rng.chance(1, 3)) {
			// the way some Amiga archivers write a directory: method -lh0-, no name, both lengths 0, OS byte 'A', path header
			m.method = "-lh0-";
			m.os = 'A';
			m.ext.erase(std::remove_if(m.ext.begin(), m.ext.end(), [](const ExtHdr &e) { return e.type >= 0x50 && e.type <= 0x54; }), m.ext.end());
			m.inname.clear();
		}
		if (m.level <= 1 && m.kind == 'f' && rng.chance(1, 3)) {
			// the barest form of a level-0/1 header: name in the base header, no extended area, no extended headers, and
			// an OS byte of zero now and then - nothing but the base header's own fields stands between a wrong length
			// byte and acceptance
			m.ext.clear();
			m.l0ext.clear();
			m.inname = to_bytes(m.gname.empty() ? std::string("bare") : m.gname.substr(0, 40));
			m.gpath.clear();
			if (rng.chance(1, 2)) m.os = 0;
			m.time = dos_time_from_unix(1000000000 + (int64_t) rng.below(100000000) * 2, 0);
		} else if (m.level >= 1 && rng.chance(1, 4)) {
			// further known header types anywhere in the chain (OS-9, Windows time stamps, user/group names): decoding one
			// must not disturb what another one established
			static const uint8_t types[] = {0xcc, 0x41, 0x52, 0x53, 0xcc};
			ExtHdr e;
			e.type = types[rng.below(5)];
			size_t n = e.type == 0xcc ? 12 + rng.below(6) : e.type == 0x41 ? 24 : 1 + rng.below(8);
			for (size_t i = 0; i < n; ++i) e.data.push_back(rng.byte());
			m.ext.insert(m.ext.begin() + (long) rng.below(m.ext.size() + 1), e);
		}
		if (m.level == 2 && m.os != 'A' && rng.chance(1, 5)) {
			// LHA for OS-9/68k writes level-2 headers whose length field does not count its own two bytes
			m.os = 'K';
			Bytes tmp; MemberLayout lay;
			build_member(m, tmp, lay);
			m.hdrlen = (int64_t) lay.hdr_len - 2;
			for (auto &e : m.ext) e.auto_crc = false;   // (the real tool writes no common CRC; its position would shift)
			m.ext.erase(std::remove_if(m.ext.begin(), m.ext.end(), [](const ExtHdr &e) { return e.type == 0; }), m.ext.end());
			build_member(m, tmp = Bytes(), lay);
			m.hdrlen = (int64_t) lay.hdr_len - 2;
		}
		if (m.level == 0 && m.kind == 'f' && m.method.compare(0, 3, "-pm") != 0 && rng.chance(1, 4)) {
			// level-0 extended areas: Unix, OS-9/68k, OS-9 and unknown, with plausible and implausible lengths
			static const uint8_t firsts[] = {'U', 'K', '9', '9', 'M', 0};
			size_t n = rng.chance(1, 2) ? 12 + rng.below(12) : rng.below(30);
			Bytes e(n);
			for (auto &b : e) b = rng.byte();
			if (n > 0) e[0] = firsts[rng.below(6)];
			if (n > 1 && rng.chance(2, 3)) e[1] = 0;
			if (n > 9 && rng.chance(2, 3)) e[9] = 0xcc;
			if (n > 18 && rng.chance(1, 2)) { e[17] = e[1]; e[18] = e[2]; }
			// never symlink type bits in a Unix-shaped area (the entry is a file; ground truth is not compared here anyway)
			if (n >= 12 && (e[0] == 'U' || e[0] == 'K')) e[n - 5] &= 0x0f;
			m.l0ext = e;
		}
		p.members.push_back(m);
		if (rng.chance(1, 2)) {
			Member tail = gen_file(rng, (int) rng.below(4), "", gen_name(rng, 5), o);
			p.members.push_back(tail);
		}
		// the common header may carry information bytes behind its CRC
		for (auto &mm : p.members)
			for (auto &e : mm.ext)
				if (e.type == 0 && e.auto_crc && rng.chance(1, 3)) { size_t extra = 1 + rng.below(4); for (size_t k = 0; k < extra; ++k) e.data.push_back(rng.byte()); }
		// one run in five: the header under test is the very first thing in the stream (what the search for the first
		// header does with a damaged one is then part of the question)
		if (rng.chance(1, 5)) { p.members.erase(p.members.begin()); p.seti("target", 0); }
		Task t;
		for (int i = 0; i < 4; ++i) { Op n; n.kind = "next"; t.ops.push_back(n); }
		p.tasks.push_back(t);
		return p;
	}
	// does the search for the first header take these bytes for a header at all? (lib/lha_input_stream.c: file_header_match)
	static bool looks_like_header(const uint8_t *b, size_t n) {
		if (n < 7 || b[2] != '-' || b[6] != '-') return false;
		if (b[3] == 'l' && b[4] == 'h') return true;
		if (b[3] == 'l' && b[4] == 'z' && (b[5] == '4' || b[5] == '5' || b[5] == 's')) return true;
		if (b[3] == 'p' && b[4] == 'm' && b[5] != 's') return true;
		return false;
	}
	size_t ti = 1;   // index of the member under test
	// evaluates one faulted archive; returns false on violation
	bool eval(const Plan &p, const Bytes &arch, size_t hstart, int kind_idx, const std::string &what, RunResult &res,
	          Plan *narrowed, const Patch *q, int64_t trunc, uint64_t &nfail, uint64_t &npass, Fnv &acc, int64_t afail = -1) {
		static const char *kinds[] = {"FILE_SEEK", "FILE_PIPE", "FILE_HALFSEEK", "CB_SKIP", "CB_NOSKIP"};
		size_t n = trunc >= 0 ? std::min<size_t>((size_t) trunc, arch.size()) : arch.size();
		std::string why = n > hstart ? integrity_fail(arch.data() + hstart, n - hstart) : "";
		if (n <= hstart) return true;
		Task t = p.tasks[0];
		t.kind = kinds[kind_idx % 5];
		t.trunc = trunc;
		DriveOpts o;
		o.budget = 4096 + 8 * arch.size();
		if (afail >= 0) { o.ledger = true; o.fail_alloc = afail; }
		DriveOut d = drive_reader(t, arch, o);
		// first in the stream: bytes the header search does not recognise are skipped like any self-extractor code, and
		// what follows them is found - nothing to assert then
		if (ti == 0 && !looks_like_header(arch.data() + hstart, n - hstart)) return true;
		bool returned = d.obs.size() > ti && !d.obs[ti].hdr.null;
		bool later = (d.obs.size() > ti + 1 && !d.obs[ti + 1].hdr.null) || (d.obs.size() > ti + 2 && !d.obs[ti + 2].hdr.null);
		acc.u64(why.empty() ? 0 : 1);
		acc.u64(returned);
		auto narrow = [&]() {
			if (!narrowed) return;
			*narrowed = p;
			narrowed->scenario = "single";
			narrowed->patches.clear();
			if (q) narrowed->patches.push_back(*q);
			if (afail >= 0) narrowed->seti("afail", afail);
			narrowed->tasks[0].trunc = trunc;
			narrowed->tasks[0].kind = t.kind;
		};
		if (d.budget) { res.fail("C12.budget", "budget", what + ": next_file did not return within the step budget"); narrow(); return false; }
		if (ti == 1 && (d.obs.empty() || d.obs[0].hdr.null)) return true;   // the first member itself was not readable: nothing to assert
		if (d.c11_bad) { res.fail("C11.invariant", "c11", d.c11_why); narrow(); return false; }
		if (!why.empty()) {
			++nfail;
			if (returned) {
				// signature: the rule that was violated
				std::string rule = why;
				for (auto &ch : rule) if (ch == ' ') ch = '_';
				res.fail("C12.returned_bad_header", "returned:" + rule,
				         what + ": the header fails its own integrity data (" + why + ") but was returned: " + d.obs[ti].hdr.str());
				narrow();
				return false;
			}
			if (later) {
				res.fail("C12.iteration_continues", "continues", what + ": iteration did not end at the bad header (" + why + ")");
				narrow();
				return false;
			}
		} else ++npass;
		return true;
	}
	RunResult execute(const Plan &p, Plan *narrowed) override {
		begin_run(p);
		RunResult res;
		uint64_t nfail = 0, npass = 0, evals = 0;
		Fnv acc;
		ti = (size_t) p.geti("target", 1);
		if (p.members.size() < ti + 1 || p.tasks.empty()) return res;
		if (p.scenario == "single") {
			BuiltArchive a = build_archive(p);
			size_t hs = a.layout[ti].start;
			Task t0 = p.tasks[0];
			static const char *kinds[] = {"FILE_SEEK", "FILE_PIPE", "FILE_HALFSEEK", "CB_SKIP", "CB_NOSKIP"};
			int ki = 0;
			for (int i = 0; i < 5; ++i) if (t0.kind == kinds[i]) ki = i;
			eval(p, a.bytes, hs, ki, "replay", res, nullptr, nullptr, t0.trunc, nfail, npass, acc, p.geti("afail", -1));
			res.nontrivial = true;
			res.trace = finish_trace();
			return res;
		}
		Plan clean = p;
		clean.patches.clear();
		BuiltArchive a = build_archive(clean);
		const MemberLayout &L = a.layout[ti];
		size_t hs = L.start;
		g_sim.tracing = false;
		int ki = (int)(p.run % 5);
		// the unfaulted header must be returned (sanity of generator and checker)
		{
			std::string why = integrity_fail(a.bytes.data() + hs, a.bytes.size() - hs);
			if (!why.empty()) { res.fail("C12.harness", "harness", "checker rejects the unfaulted header: " + why); res.trace = finish_trace(); return res; }
		}
		// (1) every single-byte substitution of every header byte
		Bytes work = a.bytes;
		for (size_t pos = 0; pos < L.hdr_len && res.ok; ++pos) {
			uint8_t orig = work[hs + pos];
			for (unsigned v = 0; v < 256 && res.ok; ++v) {
				if (v == orig) continue;
				work[hs + pos] = (uint8_t) v;
				Patch q; q.member = (int) ti; q.off = (uint32_t) pos; q.op = '='; q.val = {(uint8_t) v};
				++evals;
				eval(p, work, hs, ki++, strf("byte %zu := %02x", pos, v), res, narrowed, &q, -1, nfail, npass, acc);
			}
			work[hs + pos] = orig;
		}
		count("fault.D-BYTE", evals);
		// (2) every truncation length of header + data
		uint64_t before = evals;
		for (size_t tl = 0; tl <= L.hdr_len + L.data_len && res.ok; ++tl) {
			++evals;
			eval(p, a.bytes, hs, ki++, strf("truncated %zu bytes into the header", tl), res, narrowed, nullptr, (int64_t)(hs + tl), nfail, npass, acc);
		}
		count("fault.S-EOF", evals - before);
		// (3) length-field perturbations
		before = evals;
		for (auto &f : L.fields) {
			const std::string &fn = f.first;
			if (!(fn == "hdrlen" || fn == "namelen" || fn.compare(0, 4, "next") == 0 || fn == "packed")) continue;
			Field fd = f.second;
			uint64_t cur = 0;
			for (size_t i = 0; i < fd.len; ++i) cur |= (uint64_t) a.bytes[hs + fd.off + i] << (8 * i);
			uint64_t maxv = (1ULL << (8 * fd.len)) - 1;
			std::vector<uint64_t> vals = {cur + 1, cur - 1, cur + 2, cur - 2, 0, maxv, cur + 3, maxv - 1, cur + 4, 1, 2, 3, 4, 5};
			// 32-bit size fields: values that wrap an offset computed in 32 bits back onto the header (2^32 - k)
			if (fd.len == 4 && fn != "packed") for (uint64_t k = 2; k <= 72; ++k) vals.push_back(maxv + 1 - k);
			for (uint64_t nv : vals) {
				nv &= maxv;
				if (nv == cur || !res.ok) continue;
				Patch q; q.member = (int) ti; q.off = (uint32_t) fd.off; q.op = '=';
				for (size_t i = 0; i < fd.len; ++i) q.val.push_back((uint8_t)(nv >> (8 * i)));
				Bytes w = a.bytes;
				for (size_t i = 0; i < fd.len; ++i) w[hs + fd.off + i] = q.val[i];
				++evals;
				eval(p, w, hs, ki++, strf("field %s := %llu", fn.c_str(), (unsigned long long) nv), res, narrowed, &q, -1, nfail, npass, acc);
			}
		}
		// the stored common CRC as a whole: zero, all ones, byte-swapped, off by one (single-byte substitutions reach only
		// values that share a byte with the right one)
		for (size_t co : common_crc_offsets(a.bytes.data() + hs, a.bytes.size() - hs)) {
			if (co + 2 > L.hdr_len) continue;
			unsigned cur = u16at(a.bytes.data() + hs, co);
			unsigned vals[] = {0x0000, 0xffff, ((cur & 0xff) << 8) | (cur >> 8), (cur + 1) & 0xffff, (cur ^ 0x8001) & 0xffff, (~cur) & 0xffff};
			for (unsigned nv : vals) {
				if (nv == cur || !res.ok) continue;
				Patch q; q.member = (int) ti; q.off = (uint32_t) co; q.op = '='; q.val = {(uint8_t)(nv & 0xff), (uint8_t)(nv >> 8)};
				Bytes w = a.bytes;
				w[hs + co] = q.val[0]; w[hs + co + 1] = q.val[1];
				++evals;
				eval(p, w, hs, ki++, strf("common CRC := %04x", nv), res, narrowed, &q, -1, nfail, npass, acc);
			}
		}
		count("fault.D-FIELD", evals - before);
		// (4) A-FAIL on top of a stored-byte fault: a header that fails its own rules stays rejected when one of the
		// allocations made while it is parsed fails (a parser that stops early must not skip the checks that follow).
		// Faults: one wrong bit in the checksum byte and in up to 32 bytes spread over the rest of the header (name,
		// extended headers, common-CRC header), each with every allocation index 0..9 failing.
		before = evals;
		{
			std::vector<size_t> at;
			if (L.fields.count("csum")) at.push_back(L.fields.at("csum").off);
			for (size_t pos = 20; pos < L.hdr_len; ++pos) at.push_back(pos);
			// keep the sweep affordable: at most 32 positions, spread over the candidates (offset by the run index)
			size_t stride = at.size() > 32 ? (at.size() + 31) / 32 : 1;
			if (stride > 1 && at.size() > 1) std::rotate(at.begin() + 1, at.begin() + 1 + (long) (p.run % stride), at.end());
			for (size_t ai = 0; ai < at.size() && res.ok; ai += stride) {
				size_t pos = at[ai];
				if (pos >= L.hdr_len) continue;
				Bytes w = a.bytes;
				w[hs + pos] ^= (uint8_t)(1u << (pos % 8));
				Patch q; q.member = (int) ti; q.off = (uint32_t) pos; q.op = '='; q.val = {w[hs + pos]};
				if (integrity_fail(w.data() + hs, w.size() - hs).empty()) continue;
				for (int64_t k = 0; k < 10 && res.ok; ++k) {
					++evals;
					eval(p, w, hs, ki, strf("byte %zu bit %zu flipped, allocation #%lld fails", pos, pos % 8, (long long) k), res, narrowed, &q, -1, nfail, npass, acc, k);
				}
				++ki;
			}
		}
		count("fault.A-FAIL", evals - before);
		g_sim.tracing = true;
		g_sim.counters["evals"] = evals;
		count("probe.checker_says_fail", nfail);
		count("probe.checker_passes", npass);
		count(strf("kind.level.%d", p.members[ti].level));
		count(std::string("kind.entry.") + p.members[ti].kind);
		if (ti == 0) count("kind.header_first_in_stream");
		res.ops = evals;
		res.nontrivial = nfail > 0 && npass > 0;
		trace_u64(acc.h);
		{ Fnv h; h.bytes(a.bytes); trace_u64(h.h); }
		res.trace = finish_trace();
		return res;
	}
};
REGISTER_SCENARIO(C12);

// ---------------------------------------------------------------- C11

struct C11 : Scenario {
	const char *property() const override { return "C11"; }
	uint64_t total_runs(uint64_t, const std::string &tier) override { return tier == "quick" ? 1500000 : 40000000; }
	const char *nontrivial_rule() const override {
		return "a run is one archive of 1-3 headers whose stored name/path strings are drawn from the alphabet {'.', '/', '\\\\', 0xFF, NUL, '|', "
		       "letter, LETTER} (lengths 0-12, uniform over length then over strings; one string in four additionally mixes in arbitrary bytes) as in-header names (levels 0/1), 0x01/0x02 extended "
		       "headers (levels 1-3) and symlink 'name|target' forms, under every OS byte class; every header the library returns is "
		       "scanned: file name has no '/', every '/'-terminated path component is non-empty and neither '.' nor '..'. Non-trivial = a "
		       "header was returned whose stored strings contained a separator or a dot component; distinct = distinct trace hash. "
		       "The same invariant is monitored on every header seen by every other reader scenario (C08, C12, C13, C15, C16, C20)";
	}
	void describe(std::string &real, std::string &stub, std::string &assume) const override {
		real = "lib/lha_file_header.c (collapse_path, split_header_filename, parse_symlink, process_level0_path), lib/ext_header.c (unmodified)";
		stub = "archive source (seekable file); names generated, not corrupted";
		assume = "random sampling over strings, not the exhaustive enumeration the property's quantifier mentions; strings of length <= 6 over the "
		         "8-symbol alphabet (299,593 strings) are each hit with high probability in the thorough tier, which is a probability, not a guarantee";
	}
	static Bytes hostile(Rng &rng, int maxlen) {
		static const uint8_t alpha[] = {'.', '/', '\\', 0xff, 0x00, '|', 'a', 'A', '.', '/'};
		int n = (int) rng.below((uint64_t) maxlen + 1);
		Bytes b;
		// "randomly beyond" the small alphabet: one string in four mixes arbitrary bytes with the separators
		bool beyond = rng.chance(1, 4);
		for (int i = 0; i < n; ++i) b.push_back(beyond && rng.chance(1, 2) ? rng.byte() : alpha[rng.below(sizeof alpha)]);
		return b;
	}
	Plan generate(uint64_t seed, uint64_t run, const std::string &) override {
		Rng rng(seed, 11, run);
		Plan p;
		p.scenario = "hostile_names";
		int n = 1 + (int) rng.below(3);
		static const uint8_t oss[] = {0, 'M', 'U', 'A', 'a', '2', 'm', 'K', '9', ' ', 'w', 'J', 0x80, 0xff};
		for (int i = 0; i < n; ++i) {
			Member m;
			m.level = (int) rng.below(4);
			m.os = oss[rng.below(sizeof oss)];
			if (m.os == 'K' && m.level == 2) m.os = 'U';
			bool link = rng.chance(1, 4), dir = !link && rng.chance(1, 4);
			m.method = (link || dir) ? "-lhd-" : (rng.chance(1, 2) ? "-lh0-" : "-lh5-");
			m.kind = link ? 'l' : dir ? 'd' : 'f';
			if (m.level <= 1) m.inname = hostile(rng, 12);
			if (m.level >= 1) {
				if (rng.chance(2, 3)) { ExtHdr e; e.type = 0x01; e.data = hostile(rng, 12); if (!e.data.empty()) m.ext.push_back(e); }
				if (rng.chance(2, 3)) { ExtHdr e; e.type = 0x02; e.data = hostile(rng, 12); if (!e.data.empty()) m.ext.push_back(e); }
				if (rng.chance(1, 5)) { ExtHdr e; e.type = 0x02; e.data = hostile(rng, 12); if (!e.data.empty()) m.ext.push_back(e); }
				if (link || rng.chance(1, 6)) { ExtHdr e; e.type = 0x50; put16(e.data, link ? 0120777 : (uint32_t) rng.below(65536)); m.ext.push_back(e); }
				if (m.level >= 2 && rng.chance(1, 3)) { ExtHdr e; e.type = 0; e.data = {0, 0}; e.auto_crc = true; m.ext.push_back(e); }
			} else if (link || rng.chance(1, 4)) {
				Bytes e = {'U', 0, 1, 2, 3, 4};
				put16(e, link ? 0120777 : (uint32_t) rng.below(65536));
				put16(e, 1000);
				put16(e, 1000);
				m.l0ext = e;
			}
			if (!link && !dir) { m.data = {'x'}; m.plain = {'x'}; }
			m.time = (uint32_t) rng.next();
			p.members.push_back(m);
		}
		Task t;
		for (int i = 0; i < n + 1; ++i) { Op o; o.kind = "next"; t.ops.push_back(o); }
		p.tasks.push_back(t);
		// the invariant must also hold for whatever is returned after an allocation failed while the header was built
		if (rng.chance(1, 4)) p.seti("afail", (int64_t) rng.below(24));
		return p;
	}
	RunResult execute(const Plan &p, Plan *) override {
		begin_run(p);
		RunResult res;
		BuiltArchive a = build_archive(p);
		if (p.tasks.empty()) return res;
		DriveOpts o;
		if (p.geti("afail", -1) >= 0) { o.ledger = true; o.fail_alloc = p.geti("afail"); }
		o.budget = 4096 + 8 * a.bytes.size();
		DriveOut d = drive_reader(p.tasks[0], a.bytes, o);
		if (d.budget) res.fail("C11.budget", "budget", "next_file did not return within the step budget");
		if (d.c11_bad) res.fail("C11.invariant", "invariant", d.c11_why);
		uint64_t returned = 0;
		for (auto &ob : d.obs) if (ob.kind == "next" && !ob.hdr.null) ++returned;
		bool hostile_stored = false;
		for (auto &m : p.members) {
			std::string all = to_str(m.inname);
			for (auto &e : m.ext) if (e.type == 1 || e.type == 2) all += to_str(e.data);
			for (unsigned char c : all) if (c == '/' || c == '\\' || c == 0xff || c == '.') hostile_stored = true;
		}
		g_sim.counters["evals"] = p.members.size();
		count("probe.headers_returned", returned);
		res.ops = d.obs.size();
		res.nontrivial = returned > 0 && hostile_stored;
		res.trace = finish_trace();
		return res;
	}
};
REGISTER_SCENARIO(C11);
