// Archive construction from member specifications (deterministic; part of the
// executor, not of the generator) and the payload corpus.
#pragma once
#include "plan.h"

struct Payload {
	std::string id, method;
	Bytes comp, plain;
	int mac = 0;                 // taken from a MacLHA archive (os 'm')
	std::string name;            // original member name (needed for MacBinary detection)
	uint32_t ts = 0;             // original header timestamp
	std::vector<std::pair<uint32_t, uint32_t>> cuts;   // (bytes out, compressed bytes needed)
	uint32_t need(uint32_t nout) const;
};

const std::vector<Payload> &corpus();
const Payload *find_payload(const std::string &id);
std::vector<const Payload *> payloads_for(const std::string &method);

struct Field { size_t off = 0, len = 0; };
struct MemberLayout {
	size_t start = 0, hdr_len = 0, data_len = 0;       // absolute start; header and data sizes
	std::map<std::string, Field> fields;               // offsets relative to start
};
struct BuiltArchive {
	Bytes bytes;
	std::vector<MemberLayout> layout;
	size_t prefix_len = 0;
};

Bytes member_data(const Member &m);     // compressed bytes as stored
Bytes member_plain(const Member &m);    // what decoding the member yields (before MacBinary stripping)
Bytes member_contents(const Member &m); // what extraction must produce (MacBinary envelope removed)
void build_member(const Member &m, Bytes &out, MemberLayout &lay);
BuiltArchive build_archive(const Plan &p, bool apply_patches = true);

// trivial encoders for arbitrary contents
Bytes encode_lz5(const Bytes &plain, Rng *rng = nullptr);
Bytes encode_lzs(const Bytes &plain, Rng *rng = nullptr);

// time helpers (fixed-offset zones only)
uint32_t dos_time_from_unix(int64_t t, int tz_offset_seconds);   // local = t + offset
void civil_from_unix(int64_t t, int &Y, int &M, int &D, int &h, int &m, int &s);
int tz_offset_of(const std::string &tz);    // "UTC", "JST-9", "EST5", "XXX-5:30"

// MacBinary
Bytes make_macbinary(const std::string &name, const Bytes &data_fork, uint32_t unix_mtime);
