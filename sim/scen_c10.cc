// C10: extraction never touches anything outside the extraction directory.
// The real tool runs on SimFS; an invariant is evaluated after every
// filesystem operation (= every crash point of the operation sequence).
#include "clienv.h"
#include "gen.h"
#include <cerrno>

static std::string lexical_abs(const std::string &cwd, const std::string &p) {
	std::vector<std::string> parts;
	std::string full = (!p.empty() && p[0] == '/') ? p : cwd + "/" + p;
	for (auto &c : split_ch(full, '/')) {
		if (c.empty() || c == ".") continue;
		if (c == "..") { if (!parts.empty()) parts.pop_back(); continue; }
		parts.push_back(c);
	}
	std::string r;
	for (auto &c : parts) r += "/" + c;
	return r.empty() ? "/" : r;
}

static bool under(const std::string &path, const std::string &root) {
	if (root == "/") return true;
	return path == root || (path.size() > root.size() && path.compare(0, root.size(), root) == 0 && path[root.size()] == '/');
}

static bool dangerous(const std::string &tg) {
	if (!tg.empty() && tg[0] == '/') return true;
	for (auto &c : split_ch(tg, '/')) if (c == "..") return true;
	return false;
}

static std::string wdir_of(const std::string &cmd_in) {
	std::string cmd = cmd_in;
	if (!cmd.empty() && cmd[0] == '-') cmd.erase(0, 1);
	for (size_t i = 1; i < cmd.size(); ++i) {
		if (cmd[i] == 'q' && i + 1 < cmd.size() && cmd[i + 1] >= '0' && cmd[i + 1] <= '9') { ++i; continue; }
		if (cmd[i] == 'w') {
			size_t j = i + 1;
			if (j < cmd.size() && cmd[j] == '=') ++j;
			return cmd.substr(j);
		}
	}
	return "";
}

static bool has_opt(const std::string &cmd_in, char o) {
	std::string cmd = cmd_in;
	if (!cmd.empty() && cmd[0] == '-') cmd.erase(0, 1);
	for (size_t i = 1; i < cmd.size(); ++i) {
		if (cmd[i] == 'w') break;
		if (cmd[i] == o) return true;
	}
	return false;
}

struct C10 : Scenario {
	const char *property() const override { return "C10"; }
	uint64_t total_runs(uint64_t, const std::string &tier) override { return tier == "quick" ? 120000 : 5000000; }
	const char *nontrivial_rule() const override {
		return "a run is one archive of 1-6 entries over a hostile alphabet (components '..' '.' '' names, separators / \\\\ 0xFF, NUL, absolute "
		       "paths; symlinks with safe, absolute, '..', 'a/../..', empty and self targets; symlink-then-file/dir/symlink of the same "
		       "name; nested and equal-length deferred links; levels 0-3; optionally corrupted), one invocation (x/e with f q i w=DIR, "
		       "filters, prompt script; or l v t p xn en pn tn) and one initial SimFS tree (files and symlinks to files or dangling, never "
		       "a symlink to a directory; canary tree beside the root), as uid 0 or 1000, optionally with one failing syscall or a "
		       "failing write. The invariant (containment, dangerous-symlinks-last, replace-never-follow) is evaluated after EVERY "
		       "filesystem operation; canary identity and no-mutation for read-only commands at the end. Non-trivial = at least 3 "
		       "mutating filesystem operations; distinct = distinct trace hash over the operation log";
	}
	void describe(std::string &real, std::string &stub, std::string &assume) const override {
		real = "src/*.c, whole library incl. lib/lha_arch_unix.c (unmodified)";
		stub = "SimFS (validated against the kernel by 'check selftest simfs'), terminal, scripted stdin, archive source";
		assume = "SimFS resolves paths as Linux does for the calls lhasa makes; w= defines the root (lexically resolved); the initial tree has no symlink to a directory";
	}
	static Bytes hostile_path(Rng &rng, bool for_dir) {
		static const char *comps[] = {"..", ".", "", "a", "b", "etc", "x", "canary", "root", "passwd", "..", "a", "w", "y", "...", ".. "};
		static const uint8_t seps[] = {'/', '/', '\\', 0xff, '/'};
		int n = 1 + (int) rng.below(4);
		Bytes b;
		if (rng.chance(1, 5)) b.push_back(seps[rng.below(5)]);      // absolute
		for (int i = 0; i < n; ++i) {
			if (i) b.push_back(seps[rng.below(5)]);
			append(b, std::string(comps[rng.below(16)]));
			if (rng.chance(1, 30)) b.push_back(0);
		}
		if (for_dir || rng.chance(1, 8)) b.push_back(seps[rng.below(5)]);
		return b;
	}
	static std::string link_target(Rng &rng) {
		static const char *t[] = {"a", "b/c", "/etc", "/w/x/y/canary", "..", "../canary", "a/../..", "../../x", ".", "/",
		                          "/etc/passwd", "../canary/file", "x", "/w/x/y/canary/open", "../..", "a/./b"};
		return t[rng.below(16)];
	}
	Plan generate(uint64_t seed, uint64_t run, const std::string &) override {
		Rng rng(seed, 10, run);
		Plan p;
		p.scenario = "containment";
		p.seti("canary", 1);
		p.seti("euid", rng.chance(1, 2) ? 0 : 1000);
		int n = 1 + (int) rng.below(6);
		std::vector<std::string> linknames, usednames;
		// scripted shape, one run in twelve: a chain of harmless links leading to a directory, entries written through the
		// chain, and then one link of the chain replaced by a dangerous one (names alias each other, so "longest path
		// first" alone does not order the deferred links)
		struct Spec { char kind; std::string path, target; };
		std::vector<Spec> script;
		if (rng.chance(1, 12)) {
			auto nm = [&](size_t len) { std::string s; for (size_t k = 0; k < len; ++k) s.push_back((char) ('a' + rng.below(26))); return s; };
			int depth = 1 + (int) rng.below(3);
			std::vector<std::string> chain;
			chain.push_back(nm(1 + rng.below(2)));
			for (int k = 1; k <= depth; ++k) chain.push_back(nm(1 + rng.below(7)));
			bool uniq = true;
			for (size_t a = 0; a < chain.size(); ++a) for (size_t b = a + 1; b < chain.size(); ++b) if (chain[a] == chain[b]) uniq = false;
			if (uniq) {
				static const char *danger[] = {"/etc", "/w/x/y/canary", "../canary", "/w/x/y/canary/open", "../../y/canary", "/"};
				static const char *leaf[] = {"x", "passwd", "file", "sub", "open"};
				for (size_t k = 0; k + 1 < chain.size(); ++k) script.push_back({'l', chain[k], chain[k + 1]});
				script.push_back({'d', chain.back() + "/", ""});
				int through = 1 + (int) rng.below(2);
				for (int k = 0; k < through; ++k) {
					std::string via = chain[rng.below(chain.size() - 1)] + "/" + leaf[rng.below(5)];
					int what = (int) rng.below(4);
					if (what == 0) script.push_back({'f', via, ""});
					else if (what == 1) script.push_back({'d', via + "/", ""});
					else script.push_back({'l', via, rng.chance(1, 4) ? std::string("harmless") : std::string(danger[rng.below(6)])});
				}
				// replace one link of the chain (not its first name only: any) by a dangerous one
				script.push_back({'l', chain[rng.below(chain.size() - 1)], danger[rng.below(6)]});
				if (rng.chance(1, 3)) script.insert(script.begin() + (long) rng.below(script.size() + 1), {'f', nm(3), ""});
				n = (int) script.size();
				p.sets("shape", "alias_chain");
			}
		}
		for (int i = 0; i < n; ++i) {
			Member m;
			m.level = (int) rng.below(4);
			int ks = (int) rng.below(10);
			m.os = rng.chance(3, 4) ? 'U' : 'M';
			Bytes path = hostile_path(rng, ks >= 7);
			if (!script.empty()) { ks = script[i].kind == 'd' ? 8 : script[i].kind == 'l' ? 5 : 1; path = to_bytes(script[i].path); }
			// scripted patterns now and then
			int pat = (int) rng.below(12);
			std::string fixed;
			if (pat == 0 && !linknames.empty()) fixed = rng.pick(linknames) + "/passwd";           // write below an earlier link
			if (pat == 1 && !linknames.empty()) fixed = rng.pick(linknames);                         // same name as an earlier link
			if (pat == 2 && !linknames.empty()) { fixed = rng.pick(linknames) + "/sub"; ks = 4; }   // link below a link
			if (pat == 3 && !usednames.empty()) fixed = rng.pick(usednames);   // one name as file, then as directory, then as link
			if (!script.empty()) fixed.clear();
			if (!fixed.empty()) path = to_bytes(fixed);
			if (ks >= 7) {
				m.kind = 'd'; m.method = "-lhd-";
				if (path.empty() || (path.back() != '/' && path.back() != '\\' && path.back() != 0xff)) path.push_back('/');
			} else if (ks >= 4) {
				m.kind = 'l'; m.method = "-lhd-";
			} else {
				m.kind = 'f'; m.method = rng.chance(1, 2) ? "-lh0-" : "-lz5-";
				m.plain = to_bytes("payload " + std::to_string(i) + "\n");
				m.data = m.method == "-lh0-" ? m.plain : encode_lz5(m.plain, &rng);
			}
			std::string target = m.kind == 'l' ? link_target(rng) : "";
			if (!script.empty() && m.kind == 'l') target = script[i].target;
			m.gtarget = target;
			std::string pstr = to_str(path);
			{ std::string bare = pstr; while (!bare.empty() && (bare.back() == '/' || bare.back() == '\\' || (unsigned char) bare.back() == 0xff)) bare.pop_back(); if (!bare.empty()) usednames.push_back(bare); }
			if (m.kind == 'l') { linknames.push_back(pstr); pstr += "|" + target; }
			m.gname = pstr;   // ground truth is not used by this oracle; kept for the plan summary
			// encode: in-header (levels 0/1) or extended headers (1-3); separators as generated
			if (m.level == 0 || (m.level == 1 && rng.chance(1, 2))) {
				m.inname = to_bytes(pstr);
				if (m.inname.size() > 200) m.inname.resize(200);
			} else {
				// split at the last separator-like byte
				size_t cut = std::string::npos;
				for (size_t k = 0; k < pstr.size(); ++k) if (pstr[k] == '/' || (unsigned char) pstr[k] == 0xff) cut = k;
				std::string dirp = cut == std::string::npos ? "" : pstr.substr(0, cut + 1), nm = cut == std::string::npos ? pstr : pstr.substr(cut + 1);
				if (!nm.empty()) { ExtHdr e; e.type = 1; e.data = to_bytes(nm); m.ext.push_back(e); }
				if (!dirp.empty()) { ExtHdr e; e.type = 2; e.data = to_bytes(dirp); for (auto &c : e.data) if (c == '/' && rng.chance(3, 4)) c = 0xff; m.ext.push_back(e); }
				if (m.ext.size() >= 2 && rng.chance(1, 6)) std::swap(m.ext.front(), m.ext.back());
			}
			int perms = m.kind == 'l' ? 0120777 : (rng.chance(2, 3) ? ((m.kind == 'd' ? 040000 : 0100000) | (int) rng.below(01000)) : -1);
			encode_unix_meta(m, perms, rng.chance(1, 2) ? 1000 : (rng.chance(1, 2) ? 0 : -1), 1000, 1000000000 + (int64_t) rng.below(100000000), 0, false);
			if (m.level >= 2 && rng.chance(1, 3)) { ExtHdr e; e.type = 0; e.data = {0, 0}; e.auto_crc = true; m.ext.push_back(e); }
			p.members.push_back(m);
		}
		if (rng.chance(1, 8)) {
			BuiltArchive a = build_archive(p);
			int np = 1 + (int) rng.below(3);
			for (int i = 0; i < np; ++i) { Patch q; gen_patch(rng, p, a, q, true); p.patches.push_back(q); }
		}
		// invocation
		int mode = (int) rng.below(10);
		std::string cmd;
		if (mode <= 6) {
			cmd = rng.chance(1, 2) ? "x" : "e";
			static const char *opts[] = {"f", "q", "q0", "q1", "fi", "qi", "", "fv", "i", "f", "f", "q2"};
			cmd += opts[rng.below(12)];
			if (rng.chance(1, 3)) {
				static const char *wd[] = {"w=out", "w=/w/x/y/root/out", "w=../root/o2", "w=out/deep/er", "wout", "w=./", "w=sub/../out2", "w=/w/x/y/other"};
				cmd += wd[rng.below(8)];
			}
		} else {
			static const char *ro[] = {"l", "v", "t", "p", "xn", "en", "pn", "tn", "lv", "vv", "tq", "pq", "xfn", "xnw=out", "xniw=out", "eniw=new/sub/dir", "xnfiw=/w/x/y/root/fresh", "tiw=out", "pqiw=out", "xnqw=a/b"};
			cmd = ro[rng.below(20)];
		}
		p.argv = {"lha", cmd, "/w/a.lzh"};
		if (rng.chance(1, 6)) p.argv.push_back(rng.chance(1, 2) ? "*" : "*a*");
		// prompt answers when neither f nor q is given
		static const char *scripts[] = {"y\n", "n\n", "a\n", "s\n", "\n", "zzz\ny\n", "", "y\ny\ny\ny\n", "n\ny\n"};
		p.stdin_script = scripts[rng.below(9)];
		// initial tree: objects at paths the archive is likely to write; never a symlink to a directory
		int nf = (int) rng.below(5);
		static const char *spots[] = {"a", "b", "etc", "x", "passwd", "canary", "out/a", "out/etc", "a/b", "root", "y", "w"};
		for (int i = 0; i < nf; ++i) {
			FsEnt e;
			std::string base = (rng.chance(1, 4) && cmd.find("w=out") != std::string::npos) ? "/w/x/y/root/out/" : "/w/x/y/root/";
			e.path = base + spots[rng.below(12)];
			bool dup = false;
			for (auto &o : p.fs) if (o.path == e.path || o.path.compare(0, e.path.size() + 1, e.path + "/") == 0 || e.path.compare(0, o.path.size() + 1, o.path + "/") == 0) dup = true;
			if (dup) continue;
			e.uid = e.gid = (int) p.geti("euid");
			int k = (int) rng.below(4);
			if (k == 0) { e.type = 'f'; e.data = to_bytes("old"); e.mode = 0644; }
			else if (k == 1) { e.type = 'l'; static const char *tg[] = {"/etc/passwd", "/w/x/y/canary/file", "../canary/file", "/w/x/passwd"}; e.target = tg[rng.below(4)]; }
			else if (k == 2) { e.type = 'l'; static const char *tg[] = {"/nonexistent/x", "../canary/newfile", "/w/x/y/canary/open/created", "dangling"}; e.target = tg[rng.below(4)]; }
			else { e.type = 'd'; e.mode = rng.chance(1, 4) ? 0555 : 0755; }
			p.fs.push_back(e);
		}
		if (rng.chance(1, 8)) {
			// a pre-existing symlink to a file outside the root at the very path an entry is written to, optionally inside a
			// directory the user may not write (the unlink before the create then fails)
			bool ro = rng.chance(1, 2);
			std::string d = ro ? "ro" : "";
			if (ro) { FsEnt e; e.type = 'd'; e.path = "/w/x/y/root/ro"; e.mode = rng.chance(1, 2) ? 0555 : 01777; e.uid = e.gid = rng.chance(1, 2) ? 0 : (int) p.geti("euid"); p.fs.push_back(e); }
			FsEnt l; l.type = 'l'; l.path = "/w/x/y/root/" + (ro ? d + "/" : std::string("")) + "victim"; l.target = rng.chance(1, 2) ? "/etc/passwd" : "../canary/file";
			if (ro) l.target = rng.chance(1, 2) ? "/etc/passwd" : "../../canary/file";
			l.uid = l.gid = 0;
			bool clash = false;
			for (auto &x : p.fs) if (x.path == l.path) clash = true;
			if (!clash) {
				p.fs.push_back(l);
				Member m;
				m.level = (int) rng.below(3);
				m.os = 'U';
				bool link = rng.chance(1, 3);
				m.kind = link ? 'l' : 'f';
				m.method = link ? "-lhd-" : "-lh0-";
				if (!link) { m.plain = to_bytes("overwritten?\n"); m.data = m.plain; }
				std::string nm = (ro ? d + "/" : std::string("")) + "victim" + (link ? "|/etc" : "");
				if (m.level == 2) { ExtHdr e; e.type = 1; e.data = to_bytes(ro ? (link ? std::string("victim|/etc") : std::string("victim")) : nm); m.ext.push_back(e); if (ro) { ExtHdr e2; e2.type = 2; e2.data = {'r', 'o', 0xff}; m.ext.push_back(e2); } }
				else m.inname = to_bytes(nm);
				encode_unix_meta(m, link ? 0120777 : 0100644, -1, -1, 1000000000, 0, false);
				p.members.push_back(m);
				if (rng.chance(1, 2)) p.sets("fsfaults", strf("unlink:%d:%d", (int) rng.below(3), rng.chance(1, 2) ? EPERM : EACCES));
			}
		}
		// faults
		if (rng.chance(1, 5) && p.gets("fsfaults").empty()) {
			static const char *calls[] = {"mkdir", "open", "unlink", "symlink", "chmod", "chown", "fchmod", "fchown", "utime", "stat", "fdopen"};
			static const int errs[] = {EACCES, ENOSPC, EIO, EPERM, ENOENT, EEXIST, EROFS, ENOMEM, ELOOP, ENAMETOOLONG};
			p.sets("fsfaults", strf("%s:%d:%d", calls[rng.below(11)], (int) rng.below(4), errs[rng.below(10)]));
		}
		if (rng.chance(1, 10)) { p.seti("write_fail_at", (int64_t) rng.below(30)); p.seti("outbuf", rng.chance(1, 2) ? 1 : 0); }
		return p;
	}
	RunResult execute(const Plan &p, Plan *) override {
		begin_run(p);
		RunResult res;
		BuiltArchive a = build_archive(p);
		if (!p.patches.empty() && archive_declares_huge(a.bytes, -1)) {
			// corrupted length field declaring > 4 MiB: decoding it is legitimately slow (bounded by the declared length); not this property's subject
			count("probe.skipped_huge_declared_length");
			res.trace = finish_trace();
			return res;
		}
		CliEnv env(p);
		SimFS &fs = env.fs;
		std::string cwd = p.gets("cwd", "/w/x/y/root");
		std::string cmd = p.argv.size() > 1 ? p.argv[1] : "l";
		std::string cm = cmd;
		if (!cm.empty() && cm[0] == '-') cm.erase(0, 1);
		bool extracting = (cm[0] == 'x' || cm[0] == 'e') && !has_opt(cmd, 'n');
		std::string wd = wdir_of(cmd);
		std::string root = wd.empty() ? cwd : lexical_abs(cwd, wd);
		// directories named by prefixes of the w= argument are the user's choice as well ("w=sub/../out2" needs "sub")
		std::vector<std::string> w_prefixes;
		{
			std::string acc;
			for (auto &comp : split_ch(wd, '/')) {
				acc += (acc.empty() && !(wd.size() && wd[0] == '/') ? "" : "/") + comp;
				if (!comp.empty()) w_prefixes.push_back(lexical_abs(cwd, acc));
			}
		}
		bool flatten = has_opt(cmd, 'i');
		std::string canary_before = fs.dump(env.canary_ino, true) + fs.dump(fs.lookup("/etc"), true) + fs.dump(fs.lookup("/w/x/passwd"), true);
		// invariant state
		std::string viol_clause, viol_sig, viol_detail;
		bool dangerous_exists = false;
		std::string pending_unlink;
		std::vector<std::string> pending_mkdirs;
		size_t last_link_len = (size_t) 1 << 40;
		uint64_t mutating = 0;
		auto flag = [&](const char *clause, const std::string &sig, const std::string &detail) {
			if (!viol_clause.empty()) return;
			viol_clause = clause; viol_sig = sig; viol_detail = detail;
		};
		fs.on_op = [&](const FsLog &l) {
			if (!l.mutating) return;
			++mutating;
			std::string desc = strf("%s(%s%s%s) -> %s", l.op.c_str(), printable(l.path).c_str(), l.target.empty() ? "" : " target=", printable(l.target).c_str(), l.err ? strerror(l.err) : "ok");
			if (!extracting) { flag("C10.readonly_command_mutates", "readonly:" + l.op, "'lha " + cmd + "' issued a mutating filesystem operation: " + desc); return; }
			// where did it resolve?
			std::string where;
			if (l.op == "write" || l.op == "fchmod" || l.op == "fchown") where = fs.path_of(l.ino);
			else if (l.op == "chmod" || l.op == "chown" || l.op == "utime") { if (l.ino >= 0) where = fs.path_of(l.ino); }
			else if (l.parent >= 0 && !l.name.empty() && l.name != "." && l.name != "..") { std::string pp = fs.path_of(l.parent); where = (pp == "/" ? "" : pp) + "/" + l.name; }
			else if (l.ino >= 0) where = fs.path_of(l.ino);
			if (!where.empty()) {
				bool ok = under(where, root);
				// creating the w= directory and its missing ancestors is the user's choice
				if (!ok && l.op == "mkdir" && under(root, where)) ok = true;
				if (!ok && l.op == "mkdir") for (auto &wp : w_prefixes) if (wp == where) ok = true;
				// an operation on '.' or '..' that failed cannot succeed in any tree (EISDIR/EEXIST on a directory): no effect
				if (!ok && l.err && (l.name == "." || l.name == "..")) ok = true;
				if (!ok && (l.op == "chmod" || l.op == "utime" || l.op == "chown") && where == root) ok = true;
				if (!ok) {
					// the unlink/symlink pair that turns a placeholder into its deferred link, made while another dangerous link
					// of this run already exists and reached through it (the name used lies inside the root; other names alias
					// the link created first): its own signature, so that every other escape stays a different violation
					bool deferred_phase = dangerous_exists && (l.op == "unlink" || l.op == "symlink") && under(lexical_abs(cwd, l.path), root);
					flag("C10.containment", deferred_phase ? std::string("containment:deferred_link_through_created_link") : "containment:" + l.op,
					     "operation resolved outside the extraction root " + root + ": " + desc + " at " + where
					     + (deferred_phase ? " (a deferred symbolic link is created through a dangerous link created just before it)" : ""));
				}
			}
			// dangerous symlinks last: once one exists, the only operations still to come are those that create further
			// deferred symlinks - the unlink of the placeholder right before its symlink(), and the tool's
			// parent-directory preparation (mkdir of a prefix of that symlink's path)
			if (!pending_unlink.empty()) {
				if (!(l.op == "symlink" && l.path == pending_unlink))
					flag("C10.dangerous_symlink_early", "order:" + l.op, "a dangerous symlink already exists but the run went on with " + desc);
				pending_unlink.clear();
			} else if (dangerous_exists && l.op != "symlink") {
				if (l.op == "unlink") pending_unlink = l.path;
				else if (l.op == "mkdir") pending_mkdirs.push_back(l.path);
				else flag("C10.dangerous_symlink_early", "order:" + l.op, "a dangerous symlink already exists but the run went on with " + desc);
			}
			if (l.op == "symlink" && !pending_mkdirs.empty()) {
				for (auto &d : pending_mkdirs) {
					std::string dd = d;
					while (!dd.empty() && dd.back() == '/') dd.pop_back();
					if (!(l.path.size() > dd.size() && l.path.compare(0, dd.size(), dd) == 0 && l.path[dd.size()] == '/'))
						flag("C10.dangerous_symlink_early", "order:mkdir", "a dangerous symlink already exists but the run went on with mkdir(" + printable(d) + "), which does not prepare the next symlink " + printable(l.path));
				}
				pending_mkdirs.clear();
			}
			if (l.op == "symlink" && dangerous(l.target)) {
				if (!l.err) dangerous_exists = true;
				// stored paths order the list; the path used differs by at most the stripped leading '/', and by
				// everything under 'i' (flattening), where all links share one directory anyway
				if (!flatten && l.path.size() > last_link_len + 1)
					flag("C10.deferred_order", "deferred_order", strf("dangerous symlink %s (path length %zu) created after a shorter one (%zu)", printable(l.path).c_str(), l.path.size(), last_link_len));
				last_link_len = l.path.size();
			}
			// replace, never follow: a successful create must yield a new object
			if ((l.op == "open_creat" || l.op == "open_write") && !l.err && l.ino >= 0 && fs.nodes[l.ino].preexisting)
				flag("C10.follows_existing", "follow:" + l.op, "output was opened on an object that existed before the run instead of replacing it: " + desc);
		};
		g_sim.budget = 200000 + 64 * a.bytes.size();
		CliResult r = env.run(p, a.bytes);
		fs.on_op = nullptr;
		if (r.budget) { res.fail("C10.budget", "budget", "command did not finish within the step budget"); res.trace = finish_trace(); return res; }
		if (!pending_unlink.empty()) flag("C10.dangerous_symlink_early", "order:unlink", "an unlink after a dangerous symlink was not followed by the symlink it prepares");
		std::string canary_after = fs.dump(env.canary_ino, true) + fs.dump(fs.lookup("/etc"), true) + fs.dump(fs.lookup("/w/x/passwd"), true);
		if (canary_before != canary_after) flag("C10.canary", "canary", "the canary tree beside the extraction root changed:\nbefore:\n" + canary_before + "after:\n" + canary_after);
		if (!viol_clause.empty()) res.fail(viol_clause, viol_sig, viol_detail);
		size_t bad;
		if (res.ok && cm[0] != 'p' && !c18_output_ok(r.out + r.err, &bad)) res.fail("C18.printable", "printable:c10", "non-printable byte on the terminal");
		// trace: the operation log
		for (auto &l : fs.log) { trace_str(l.op); trace_str(l.path); trace_u64((uint64_t) l.err); trace_u64((uint64_t) l.ino); }
		trace_u64((uint64_t) r.status);
		res.ops = fs.log.size();
		res.nontrivial = mutating >= 3;
		count("probe.fs_operations", fs.log.size());
		count("probe.mutating_operations", mutating);
		if (dangerous_exists) count("probe.dangerous_symlink_created");
		count(std::string("kind.") + (extracting ? "extract" : "readonly"));
		count(strf("kind.euid.%d", (int) p.geti("euid")));
		if (!wd.empty()) count("kind.w_option");
		if (p.gets("shape") == "alias_chain") count("kind.shape.alias_chain");
		for (auto &l : fs.log) if (l.err == EACCES || l.err == EPERM) { count("fault.F-PERM"); break; }
		res.trace = finish_trace();
		return res;
	}
};
REGISTER_SCENARIO(C10);
