#include "simfs.h"
#include <cerrno>
#include <fcntl.h>
#include <sstream>

SimFS::SimFS() {
	nodes.clear();
	Inode r;
	r.type = 'd'; r.mode = 0755; r.uid = 0; r.gid = 0; r.mtime = 1000000000; r.parent = 0;
	nodes.push_back(r);
	root = cwd = 0;
}

int SimFS::new_node(char type) {
	Inode n;
	n.type = type;
	nodes.push_back(n);
	return (int) nodes.size() - 1;
}

uint64_t SimFS::tick() {
	clock += 1 + (rng ? (int64_t) rng->below(90) : 0);
	return (uint64_t) clock;
}

bool SimFS::may(const Inode &n, int want) const {
	if (euid == 0) {
		if (want & 1) return n.type == 'd' || (n.mode & 0111);
		return true;
	}
	int bits;
	if (n.uid == euid) bits = (n.mode >> 6) & 7;
	else if (n.gid == egid) bits = (n.mode >> 3) & 7;
	else bits = n.mode & 7;
	return (bits & want) == want;
}

bool SimFS::is_under(int ino, int anc) const {
	int guard = 0;
	while (ino >= 0 && guard++ < 10000) {
		if (ino == anc) return true;
		if (ino == root) return false;
		ino = nodes[ino].parent;
	}
	return false;
}

std::string SimFS::path_of(int ino) const {
	if (ino < 0) return "?";
	if (ino == root) return "/";
	std::string p;
	int guard = 0;
	while (ino != root && ino >= 0 && guard++ < 10000) {
		int par = nodes[ino].parent;
		std::string nm = "?";
		if (par >= 0)
			for (auto &e : nodes[par].ents) if (e.second == ino) { nm = e.first; break; }
		p = "/" + nm + p;
		ino = par;
	}
	return p;
}

SimFS::Res SimFS::resolve(const std::string &path, bool follow_final, int depth, bool slash_follows) {
	Res r;
	if (path.empty()) { r.err = ENOENT; return r; }
	if (path.size() > 4095) { r.err = ENAMETOOLONG; return r; }
	if (depth > 40) { r.err = ELOOP; return r; }
	int cur = path[0] == '/' ? root : cwd;
	// split
	std::vector<std::string> comps;
	size_t i = 0;
	while (i < path.size()) {
		while (i < path.size() && path[i] == '/') ++i;
		size_t j = i;
		while (j < path.size() && path[j] != '/') ++j;
		if (j > i) comps.push_back(path.substr(i, j - i));
		i = j;
	}
	bool trailing = path.size() > 0 && path.back() == '/' && !comps.empty();
	r.trailing_slash = trailing;
	if (comps.empty()) { r.ino = cur; r.parent = nodes[cur].parent; return r; }
	for (size_t k = 0; k < comps.size(); ++k) {
		const std::string &c = comps[k];
		bool last = k + 1 == comps.size();
		if (nodes[cur].type != 'd') { r.err = ENOTDIR; return r; }
		if (!may(nodes[cur], 1)) { r.err = EACCES; return r; }
		if (c.size() > 255) { r.err = ENAMETOOLONG; return r; }
		if (c == ".") {
			if (last) { r.ino = cur; r.parent = nodes[cur].parent; r.name = "."; return r; }
			continue;
		}
		if (c == "..") {
			cur = cur == root ? root : nodes[cur].parent;
			if (last) { r.ino = cur; r.parent = nodes[cur].parent; r.name = ".."; return r; }
			continue;
		}
		auto it = nodes[cur].ents.find(c);
		if (it == nodes[cur].ents.end()) {
			if (last) { r.parent = cur; r.ino = -1; r.name = c; return r; }
			r.err = ENOENT;
			return r;
		}
		int child = it->second;
		if (nodes[child].type == 'l' && (!last || follow_final || (slash_follows && trailing))) {
			// follow: resolve the target relative to cur
			const std::string &t = nodes[child].target;
			if (t.empty()) { r.err = ENOENT; return r; }
			int save = cwd;
			cwd = cur;
			Res s = resolve(t, true, depth + 1);
			cwd = save;
			if (s.err) { r.err = s.err; return r; }
			if (s.ino < 0) {
				// dangling
				if (last) { r = s; r.trailing_slash = trailing; return r; }
				r.err = ENOENT;
				return r;
			}
			child = s.ino;
			// a link target ending in '/' must lead to a directory
			if (s.trailing_slash && nodes[child].type != 'd') { r.err = ENOTDIR; return r; }
			if (last) { r.parent = s.parent; r.ino = child; r.name = s.name; return r; }
			cur = child;
			continue;
		}
		if (last) { r.parent = cur; r.ino = child; r.name = c; return r; }
		cur = child;
	}
	return r;
}

int SimFS::check_fault(const std::string &call) {
	int n = calls[call]++;
	auto it = faults.find({call, n});
	if (it != faults.end()) {
		if (counters) (*counters)["fault.F-SYSCALL"]++;
		pending_injected = true;
		return it->second;
	}
	return 0;
}

void SimFS::record(FsLog &l) {
	l.clock = (uint64_t) clock;
	if (pending_injected) {
		l.injected = true;
		pending_injected = false;
		// descriptor-based calls: remember where the object was when the call failed (it may be removed next)
		if (l.path.empty() && l.ino >= 0) l.path = path_of(l.ino);
	}
	log.push_back(l);
	if (on_op) on_op(log.back());
}

void SimFS::touch_dir(int dir) {
	nodes[dir].mtime = (int64_t) tick();
	nodes[dir].gen++;
}

// ---------------------------------------------------------------- construction

int SimFS::ensure_parents(const std::string &path, std::string &leaf) {
	int cur = path.size() && path[0] == '/' ? root : cwd;
	std::vector<std::string> comps;
	for (auto &c : split_ch(path, '/')) if (!c.empty()) comps.push_back(c);
	if (comps.empty()) { leaf = ""; return cur; }
	for (size_t k = 0; k + 1 < comps.size(); ++k) {
		auto it = nodes[cur].ents.find(comps[k]);
		if (it == nodes[cur].ents.end()) {
			int n = new_node('d');
			nodes[n].mode = 0755; nodes[n].uid = nodes[cur].uid; nodes[n].gid = nodes[cur].gid;
			nodes[n].mtime = 1000000000; nodes[n].parent = cur;
			nodes[cur].ents[comps[k]] = n;
			cur = n;
		} else cur = it->second;
	}
	leaf = comps.back();
	return cur;
}

int SimFS::add_dir(const std::string &path, int mode, int uid, int gid, int64_t mtime) {
	std::string leaf;
	int par = ensure_parents(path, leaf);
	if (leaf.empty()) { nodes[par].mode = mode; nodes[par].uid = uid; nodes[par].gid = gid; nodes[par].mtime = mtime; return par; }
	auto it = nodes[par].ents.find(leaf);
	int n;
	if (it != nodes[par].ents.end()) n = it->second;
	else { n = new_node('d'); nodes[par].ents[leaf] = n; nodes[n].parent = par; }
	nodes[n].mode = mode; nodes[n].uid = uid; nodes[n].gid = gid; nodes[n].mtime = mtime;
	return n;
}

int SimFS::add_file(const std::string &path, int mode, int uid, int gid, int64_t mtime, const Bytes &data) {
	std::string leaf;
	int par = ensure_parents(path, leaf);
	int n = new_node('f');
	nodes[par].ents[leaf] = n;
	nodes[n].parent = par; nodes[n].mode = mode; nodes[n].uid = uid; nodes[n].gid = gid;
	nodes[n].mtime = mtime; nodes[n].data = data;
	return n;
}

int SimFS::add_symlink(const std::string &path, const std::string &target, int uid, int gid, int64_t mtime) {
	std::string leaf;
	int par = ensure_parents(path, leaf);
	int n = new_node('l');
	nodes[par].ents[leaf] = n;
	nodes[n].parent = par; nodes[n].mode = 0777; nodes[n].uid = uid; nodes[n].gid = gid;
	nodes[n].mtime = mtime; nodes[n].target = target;
	return n;
}

int SimFS::lookup(const std::string &path, bool follow_final) {
	int save_euid = euid;
	euid = 0;
	Res r = resolve(path, follow_final);
	euid = save_euid;
	if (r.err) return -1;
	return r.ino;
}

void SimFS::mark_preexisting() {
	for (auto &n : nodes) n.preexisting = true;
}

// ---------------------------------------------------------------- syscalls

static void fill(SimStat &st, const Inode &n, int ino) {
	st.type = n.type; st.mode = n.mode; st.uid = n.uid; st.gid = n.gid; st.ino = ino;
	st.mtime = n.mtime; st.size = n.type == 'f' ? (int64_t) n.data.size() : (int64_t) n.target.size();
}

int SimFS::sys_stat(const std::string &p, SimStat &st, int &err, bool follow) {
	FsLog l; l.op = follow ? "stat" : "lstat"; l.path = p;
	err = check_fault(l.op);
	if (!err) {
		Res r = resolve(p, follow, 0, true);
		err = r.err;
		if (!err && r.ino < 0) err = ENOENT;
		if (!err && r.trailing_slash && nodes[r.ino].type != 'd') err = ENOTDIR;
		l.parent = r.parent; l.ino = err ? -1 : r.ino; l.name = r.name;
		if (!err) fill(st, nodes[r.ino], r.ino);
	}
	l.err = err;
	record(l);
	return err ? -1 : 0;
}

int SimFS::sys_mkdir(const std::string &p, int mode, int &err) {
	FsLog l; l.op = "mkdir"; l.path = p; l.mutating = true; l.a = mode;
	err = check_fault("mkdir");
	if (!err) {
		Res r = resolve(p, false);
		err = r.err;
		l.parent = r.parent; l.name = r.name; l.ino = r.ino;
		if (!err && r.ino >= 0) err = EEXIST;
		if (!err && (r.name == "." || r.name == "..")) err = EEXIST;
		if (!err && !may(nodes[r.parent], 3)) err = EACCES;
		if (!err) {
			int n = new_node('d');
			Inode &par = nodes[r.parent];
			nodes[n].mode = mode & ~umask_ & 01777;
			nodes[n].uid = euid;
			nodes[n].gid = egid;
			if (par.mode & 02000) { nodes[n].gid = par.gid; nodes[n].mode |= 02000; }
			nodes[n].parent = r.parent;
			par.ents[r.name] = n;
			touch_dir(r.parent);
			nodes[n].mtime = clock;
			l.ino = n;
		}
	}
	l.err = err;
	record(l);
	return err ? -1 : 0;
}

int SimFS::sys_open(const std::string &p, int flags, int mode, int &ino, int &err) {
	bool creat = flags & O_CREAT, excl = (flags & O_EXCL) && creat, wr = (flags & O_ACCMODE) != O_RDONLY;
	FsLog l; l.op = creat ? "open_creat" : (wr ? "open_write" : "open_read"); l.path = p;
	l.mutating = creat || wr || (flags & O_TRUNC); l.a = mode; l.b = flags;
	ino = -1;
	err = check_fault("open");
	if (!err) {
		Res r;
		bool slash = !p.empty() && p.back() == '/';
		if (creat && slash) {
			// Linux: O_CREAT on a path ending in '/' is EISDIR once the parent has been walked,
			// before the last component is looked at more closely
			r = resolve(p, false);
			err = r.err;
			if (!err && r.name != "." && r.name != ".." && !r.name.empty()) err = EISDIR;
		}
		if (!err && creat && !excl) {
			// a final symlink whose target ends in '/' gives EISDIR as well
			Res q = resolve(p, false);
			if (!q.err && q.ino >= 0 && nodes[q.ino].type == 'l' && !nodes[q.ino].target.empty() && nodes[q.ino].target.back() == '/') err = EISDIR;
		}
		if (!err) {
			r = resolve(p, !(excl || (flags & O_NOFOLLOW)));
			err = r.err;
		}
		l.parent = r.parent; l.name = r.name; l.ino = r.ino;
		if (!err && r.ino >= 0) {
			Inode &n = nodes[r.ino];
			if (excl) err = EEXIST;
			else if (n.type == 'l') err = ELOOP;
			else if (n.type == 'd' && (wr || creat)) err = EISDIR;
			else if (r.trailing_slash && n.type != 'd') err = ENOTDIR;
			else if (wr && !may(n, 2)) err = EACCES;
			else if (!wr && !may(n, 4)) err = EACCES;
			if (!err) {
				ino = r.ino;
				if ((flags & O_TRUNC) && wr && n.type == 'f') { n.data.clear(); n.mtime = (int64_t) tick(); n.gen++; }
			}
		} else if (!err) {
			if (!creat) err = ENOENT;
			else if (r.trailing_slash) err = EISDIR;
			else if (r.name == "." || r.name == ".." || r.name.empty()) err = EISDIR;
			else if (!may(nodes[r.parent], 3)) err = EACCES;
			if (!err) {
				int n = new_node('f');
				Inode &par = nodes[r.parent];
				nodes[n].mode = mode & ~umask_ & 07777;
				nodes[n].uid = euid;
				nodes[n].gid = (par.mode & 02000) ? par.gid : egid;
				nodes[n].parent = r.parent;
				par.ents[r.name] = n;
				touch_dir(r.parent);
				nodes[n].mtime = clock;
				ino = n;
				l.ino = n;
			}
		}
	}
	l.err = err;
	record(l);
	return err ? -1 : 0;
}

int SimFS::sys_open_read(const std::string &p, int &ino, int &err) {
	FsLog l; l.op = "open_read"; l.path = p;
	ino = -1;
	err = check_fault("fopen");
	if (!err) {
		Res r = resolve(p, true);
		err = r.err;
		if (!err && r.ino < 0) err = ENOENT;
		if (!err && r.trailing_slash && nodes[r.ino].type != 'd') err = ENOTDIR;
		if (!err && !may(nodes[r.ino], 4)) err = EACCES;
		l.parent = r.parent; l.name = r.name; l.ino = r.ino;
		if (!err) ino = r.ino;
	}
	l.err = err;
	record(l);
	return err ? -1 : 0;
}

int SimFS::sys_unlink(const std::string &p, int &err) {
	FsLog l; l.op = "unlink"; l.path = p; l.mutating = true;
	err = check_fault("unlink");
	if (!err) {
		Res r = resolve(p, false);
		err = r.err;
		l.parent = r.parent; l.name = r.name; l.ino = r.ino;
		if (!err && (r.name == "." || r.name == ".." || r.name.empty())) err = EISDIR;
		if (!err && r.ino < 0) err = ENOENT;
		if (!err && r.trailing_slash) err = nodes[r.ino].type == 'd' ? EISDIR : ENOTDIR;
		if (!err && !may(nodes[r.parent], 3)) err = EACCES;
		if (!err && (nodes[r.parent].mode & 01000) && euid != 0 && euid != nodes[r.parent].uid
		    && euid != nodes[r.ino].uid) err = EPERM;
		if (!err && nodes[r.ino].type == 'd') err = EISDIR;
		if (!err) {
			nodes[r.parent].ents.erase(r.name);
			nodes[r.ino].alive = false;
			nodes[r.ino].gen++;
			touch_dir(r.parent);
		}
	}
	l.err = err;
	record(l);
	return err ? -1 : 0;
}

int SimFS::sys_rmdir(const std::string &p, int &err) {
	FsLog l; l.op = "rmdir"; l.path = p; l.mutating = true;
	err = check_fault("rmdir");
	if (!err) {
		Res r = resolve(p, false);
		err = r.err;
		l.parent = r.parent; l.name = r.name; l.ino = r.ino;
		if (!err && r.name == ".") err = EINVAL;
		if (!err && r.name == "..") err = ENOTEMPTY;
		if (!err && r.ino == root) err = EBUSY;
		if (!err && r.ino < 0) err = ENOENT;
		if (!err && !may(nodes[r.parent], 3)) err = EACCES;
		if (!err && (nodes[r.parent].mode & 01000) && euid != 0 && euid != nodes[r.parent].uid
		    && euid != nodes[r.ino].uid) err = EPERM;
		if (!err && nodes[r.ino].type != 'd') err = ENOTDIR;
		if (!err && !nodes[r.ino].ents.empty()) err = ENOTEMPTY;
		if (!err) {
			nodes[r.parent].ents.erase(r.name);
			nodes[r.ino].alive = false;
			nodes[r.ino].gen++;
			touch_dir(r.parent);
		}
	}
	l.err = err;
	record(l);
	return err ? -1 : 0;
}

int SimFS::sys_remove(const std::string &p, int &err) {
	if (sys_unlink(p, err) == 0) return 0;
	if (err == EISDIR) return sys_rmdir(p, err);
	return -1;
}

int SimFS::sys_symlink(const std::string &target, const std::string &p, int &err) {
	FsLog l; l.op = "symlink"; l.path = p; l.mutating = true; l.target = target;
	err = check_fault("symlink");
	if (!err) {
		if (target.empty()) err = ENOENT;
		else if (target.size() > 4095) err = ENAMETOOLONG;
	}
	if (!err) {
		Res r = resolve(p, false);
		err = r.err;
		l.parent = r.parent; l.name = r.name; l.ino = r.ino;
		if (!err && r.ino >= 0) err = EEXIST;
		if (!err && (r.name == "." || r.name == "..")) err = EEXIST;
		if (!err && r.trailing_slash) err = ENOENT;
		if (!err && !may(nodes[r.parent], 3)) err = EACCES;
		if (!err) {
			int n = new_node('l');
			Inode &par = nodes[r.parent];
			nodes[n].mode = 0777;
			nodes[n].uid = euid;
			nodes[n].gid = (par.mode & 02000) ? par.gid : egid;
			nodes[n].target = target;
			nodes[n].parent = r.parent;
			par.ents[r.name] = n;
			touch_dir(r.parent);
			nodes[n].mtime = clock;
			l.ino = n;
		}
	}
	l.err = err;
	record(l);
	return err ? -1 : 0;
}

int SimFS::sys_fchmod(int ino, int mode, int &err) {
	FsLog l; l.op = "fchmod"; l.mutating = true; l.a = mode; l.ino = ino; l.parent = nodes[ino].parent;
	err = check_fault("fchmod");
	if (!err && euid != 0 && euid != nodes[ino].uid) err = EPERM;
	if (!err) {
		int m = mode & 07777;
		if (euid != 0 && nodes[ino].gid != egid) m &= ~02000;
		nodes[ino].mode = m;
		nodes[ino].gen++;
		tick();
	}
	l.err = err;
	record(l);
	return err ? -1 : 0;
}

int SimFS::sys_chmod(const std::string &p, int mode, int &err) {
	FsLog l; l.op = "chmod"; l.path = p; l.mutating = true; l.a = mode;
	err = check_fault("chmod");
	if (!err) {
		Res r = resolve(p, true);
		err = r.err;
		if (!err && r.ino < 0) err = ENOENT;
		if (!err && r.trailing_slash && nodes[r.ino].type != 'd') err = ENOTDIR;
		l.parent = r.parent; l.name = r.name; l.ino = r.ino;
		if (!err && euid != 0 && euid != nodes[r.ino].uid) err = EPERM;
		if (!err) {
			int m = mode & 07777;
			if (euid != 0 && nodes[r.ino].gid != egid) m &= ~02000;
			nodes[r.ino].mode = m;
			nodes[r.ino].gen++;
			tick();
		}
	}
	l.err = err;
	record(l);
	return err ? -1 : 0;
}

static int chown_apply(SimFS &fs, int ino, int uid, int gid) {
	Inode &n = fs.nodes[ino];
	if (fs.euid != 0) {
		if (fs.euid != n.uid) return EPERM;
		if (uid != -1 && uid != n.uid) return EPERM;
		if (gid != -1 && gid != fs.egid) return EPERM;
	}
	if (uid != -1) n.uid = uid;
	if (gid != -1) n.gid = gid;
	if (n.type != 'd') {
		n.mode &= ~04000;
		if (n.mode & 0010) n.mode &= ~02000;
	}
	n.gen++;
	fs.tick();
	return 0;
}

int SimFS::sys_fchown(int ino, int uid, int gid, int &err) {
	FsLog l; l.op = "fchown"; l.mutating = true; l.a = uid; l.b = gid; l.ino = ino; l.parent = nodes[ino].parent;
	err = check_fault("fchown");
	if (!err) err = chown_apply(*this, ino, uid, gid);
	l.err = err;
	record(l);
	return err ? -1 : 0;
}

int SimFS::sys_chown(const std::string &p, int uid, int gid, int &err) {
	FsLog l; l.op = "chown"; l.path = p; l.mutating = true; l.a = uid; l.b = gid;
	err = check_fault("chown");
	if (!err) {
		Res r = resolve(p, true);
		err = r.err;
		if (!err && r.ino < 0) err = ENOENT;
		if (!err && r.trailing_slash && nodes[r.ino].type != 'd') err = ENOTDIR;
		l.parent = r.parent; l.name = r.name; l.ino = r.ino;
		if (!err) err = chown_apply(*this, r.ino, uid, gid);
	}
	l.err = err;
	record(l);
	return err ? -1 : 0;
}

int SimFS::sys_utime(const std::string &p, int64_t t, int &err) {
	FsLog l; l.op = "utime"; l.path = p; l.mutating = true; l.a = t;
	err = check_fault("utime");
	if (!err) {
		Res r = resolve(p, true);
		err = r.err;
		if (!err && r.ino < 0) err = ENOENT;
		if (!err && r.trailing_slash && nodes[r.ino].type != 'd') err = ENOTDIR;
		l.parent = r.parent; l.name = r.name; l.ino = r.ino;
		if (!err && euid != 0 && euid != nodes[r.ino].uid) err = EPERM;
		if (!err) {
			nodes[r.ino].mtime = t;
			nodes[r.ino].gen++;
			tick();
		}
	}
	l.err = err;
	record(l);
	return err ? -1 : 0;
}

int SimFS::sys_write(int ino, size_t off, const uint8_t *buf, size_t n, int &err) {
	FsLog l; l.op = "write"; l.mutating = true; l.ino = ino; l.parent = nodes[ino].parent; l.a = (int64_t) n;
	err = 0;
	Bytes &d = nodes[ino].data;
	if (d.size() < off + n) d.resize(off + n, 0);
	memcpy(d.data() + off, buf, n);
	if (euid != 0 && n > 0) {
		// an unprivileged write drops set-id bits (file_remove_privs)
		nodes[ino].mode &= ~04000;
		if (nodes[ino].mode & 0010) nodes[ino].mode &= ~02000;
	}
	nodes[ino].mtime = (int64_t) tick();
	nodes[ino].gen++;
	record(l);
	return 0;
}

int SimFS::sys_chdir(const std::string &p, int &err) {
	Res r = resolve(p, true);
	err = r.err;
	if (!err && r.ino < 0) err = ENOENT;
	if (!err && nodes[r.ino].type != 'd') err = ENOTDIR;
	if (!err) cwd = r.ino;
	return err ? -1 : 0;
}

// ---------------------------------------------------------------- dump

std::string SimFS::dump(int ino, bool with_mtime) const {
	std::ostringstream o;
	std::function<void(int, const std::string &)> rec = [&](int n, const std::string &path) {
		const Inode &d = nodes[n];
		o << path << " " << d.type << " " << std::oct << d.mode << std::dec << " " << d.uid << ":" << d.gid;
		if (with_mtime) o << " t=" << d.mtime;
		if (d.type == 'f') o << " " << d.data.size() << ":" << std::hex << crc16_bitwise(d.data) << std::dec;
		if (d.type == 'l') o << " -> " << hex_encode(d.target);
		o << "\n";
		if (d.type == 'd')
			for (auto &e : d.ents) rec(e.second, path + "/" + hex_encode(e.first));
	};
	rec(ino, "");
	return o.str();
}
