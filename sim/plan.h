// A plan is one run, completely: workload, configuration, faults, schedule.
// Execution is a pure function of the plan and the code under test; replay
// files are plans.
#pragma once
#include "util.h"

struct ExtHdr {
	uint8_t type = 0;
	Bytes data;
	bool auto_crc = false;   // type 0x00: first two data bytes := CRC-16 of whole header
};

struct Member {
	// ---- what is serialised into the archive
	int level = 0;
	std::string method = "-lh0-";   // exactly 5 bytes
	uint8_t os = 'U';
	uint8_t attr = 0x20;
	uint32_t time = 0;              // raw field: DOS date for 0/1, Unix time for 2/3
	Bytes inname;                   // in-header name field (levels 0/1)
	Bytes l0ext;                    // level-0 extended area
	std::vector<ExtHdr> ext;        // levels 1-3
	Bytes data;                     // compressed bytes when payload is empty
	std::string payload;            // corpus id; then data/plain come from the corpus
	int64_t cut = -1;               // declared length when taken from the corpus (-1 = full)
	int64_t take = -1;              // compressed bytes to include (-1 = what the cut needs)
	int64_t packed = -1, orig = -1, crc = -1, hdrlen = -1, csum = -1, wordsz = -1; // overrides
	// ---- ground truth for oracles (set by the generator, never read by the builder)
	char kind = 'f';                // f file, d directory, l symlink
	std::string gpath, gname, gtarget;
	Bytes plain;                    // expected contents when payload is empty
	int64_t gmtime = 0;             // expected mtime (0 = not recorded)
	int gperms = -1, guid = -1, ggid = -1;
	int gos9 = -1;                  // OS-9 permission word when the entry has one
	int mac = 0;                    // 1: MacBinary envelope present in plain
};

struct Patch {            // stored-byte fault, relative to a member or to the whole archive
	int member = -1;      // -1: offset counts from the start of the archive (after the prefix)
	uint32_t off = 0;
	char op = 'x';        // x xor, = overwrite, i insert, d delete(len)
	Bytes val;
	uint32_t len = 0;
};

struct Op {
	std::string kind;     // next read check extract isfake free
	int64_t arg = 0;      // read size / flags
	std::string name;     // extract target ("" = NULL)
	int mon = 0;          // pass a progress callback
};

struct Task {
	std::string kind = "FILE_SEEK";  // stream kind
	int policy = 0;                  // LHAReaderDirPolicy
	int64_t trunc = -1;              // S-EOF: bytes served before end of input
	int64_t errat = -1;              // S-ERR: offset at which reads start failing
	int64_t skipfail = -1;           // S-SKIPFAIL: n-th skip call fails
	int seekerr = 0;                 // HALFSEEK errno: 0 ESPIPE, 1 EIO
	int skippast = 0;                // CB_SKIP accepts skipping past the end
	int erronce = 0;                 // S-ERR is transient: one read call fails (errno errerrno), the following ones succeed
	int errerrno = 5;                // errno of S-ERR on FILE kinds (EIO by default)
	int64_t prepos = 0;              // the caller has already consumed this many bytes of the source before handing it to the library
	int endless = 0;                 // S-ENDLESS: the source never reports end of input, its bytes repeat for ever
	std::string dir;                 // SimFS working directory of this task
	std::vector<Op> ops;
};

struct FsEnt {
	char type = 'd';          // d f l
	std::string path;
	int mode = 0755;
	int uid = 1000, gid = 1000;
	int64_t mtime = 1000000000;
	Bytes data;
	std::string target;
};

struct Plan {
	std::string property, scenario;
	uint64_t seed = 0, run = 0;
	KV cfg;
	Bytes prefix;
	std::vector<Member> members;
	std::vector<Patch> patches;
	Bytes raw;                        // when non-empty: the archive bytes verbatim (no members)
	std::vector<FsEnt> fs;
	std::vector<Task> tasks;
	std::vector<int> sched;
	std::vector<std::string> argv;
	std::string stdin_script;
	// decoder level
	Bytes stream;
	std::vector<uint32_t> reads;
	std::string expect;

	int64_t geti(const std::string &k, int64_t d = 0) const;
	std::string gets(const std::string &k, const std::string &d = "") const;
	void seti(const std::string &k, int64_t v);
	void sets(const std::string &k, const std::string &v) { cfg[k] = v; }

	std::string to_text() const;
	static bool from_text(const std::string &text, Plan &p, std::string &err);
	std::string summary() const;      // one-line description for evidence samples
};
