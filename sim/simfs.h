// In-memory POSIX-like filesystem: exactly the calls lhasa makes, with Linux
// result and errno conventions, permission checks for a simulated euid, a
// monotone clock that stamps mtimes, and a log of every operation with the
// inode it resolved to at call time.
#pragma once
#include "util.h"
#include <functional>

struct Inode {
	char type = 'd';                 // d f l
	int mode = 0755, uid = 0, gid = 0;
	int64_t mtime = 0;
	Bytes data;
	std::string target;
	std::map<std::string, int> ents;
	int parent = -1;                 // directory holding this inode (no hard links)
	bool alive = true;
	bool preexisting = false;        // part of the initial tree
	bool created_dangerous = false;  // symlink created by this run with absolute or '..' target
	uint64_t gen = 0;                // bumped on every change of this inode (contents or metadata)
};

struct FsLog {
	std::string op, path;
	int parent = -1;         // resolved parent directory inode (creations/removals)
	int ino = -1;            // resolved target inode (if any)
	std::string name;        // final component
	int err = 0;             // errno, 0 on success
	bool mutating = false;   // would change the filesystem if it succeeded
	int64_t a = 0, b = 0;    // mode / uid / time ...
	std::string target;      // symlink target
	uint64_t clock = 0;
	bool injected = false;   // the error is an injected fault (F-SYSCALL), not the filesystem's own answer
};

struct SimStat { char type; int mode, uid, gid, ino; int64_t mtime, size; };

class SimFS {
public:
	std::vector<Inode> nodes;
	int root = 0, cwd = 0;
	int euid = 0, egid = 0, umask_ = 022;
	int64_t clock = 1500000000;
	Rng *rng = nullptr;              // clock increments
	std::vector<FsLog> log;
	// one-shot syscall faults: (call name, n-th call of that name) -> errno
	std::map<std::pair<std::string, int>, int> faults;
	bool pending_injected = false;
	std::map<std::string, int> calls;
	Counters *counters = nullptr;
	std::function<void(const FsLog &)> on_op;   // invariant hook, called after every logged op

	SimFS();
	// construction helpers (no permission checks, no logging); parents are created 0755
	int add_dir(const std::string &path, int mode, int uid, int gid, int64_t mtime);
	int add_file(const std::string &path, int mode, int uid, int gid, int64_t mtime, const Bytes &data);
	int add_symlink(const std::string &path, const std::string &target, int uid, int gid, int64_t mtime);
	int lookup(const std::string &path, bool follow_final = true);   // -1 if none (no logging, no perms)
	bool is_under(int ino, int anc) const;
	std::string path_of(int ino) const;
	void mark_preexisting();

	// syscalls: return 0 / -1 with *err set (errno value)
	int sys_stat(const std::string &p, SimStat &st, int &err, bool follow = true);
	int sys_mkdir(const std::string &p, int mode, int &err);
	int sys_open(const std::string &p, int flags, int mode, int &ino, int &err);   // O_* flags from <fcntl.h>
	int sys_open_read(const std::string &p, int &ino, int &err);
	int sys_unlink(const std::string &p, int &err);
	int sys_rmdir(const std::string &p, int &err);
	int sys_remove(const std::string &p, int &err);
	int sys_symlink(const std::string &target, const std::string &p, int &err);
	int sys_chmod(const std::string &p, int mode, int &err);
	int sys_chown(const std::string &p, int uid, int gid, int &err);
	int sys_utime(const std::string &p, int64_t t, int &err);
	int sys_fchmod(int ino, int mode, int &err);
	int sys_fchown(int ino, int uid, int gid, int &err);
	int sys_write(int ino, size_t off, const uint8_t *buf, size_t n, int &err);
	int sys_chdir(const std::string &p, int &err);

	// canonical dump of the subtree (for comparisons and hashing)
	std::string dump(int ino, bool with_mtime = true) const;
	uint64_t tick();

private:
	int new_node(char type);
	struct Res { int parent = -1; int ino = -1; std::string name; int err = 0; bool trailing_slash = false; };
	Res resolve(const std::string &path, bool follow_final, int depth = 0, bool slash_follows = false);
	bool may(const Inode &n, int want) const;   // want: 4 r, 2 w, 1 x
	int check_fault(const std::string &call);
	void record(FsLog &l);
	void touch_dir(int dir);
	int ensure_parents(const std::string &path, std::string &leaf);
};
