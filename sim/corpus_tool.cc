// mkcorpus: derive the payload library from the repository's test archives.
// For every member: real encoder output, the plaintext it decodes to (checked
// against the CRC-16 recorded by the original archiver with an independent
// bitwise CRC), and cut points (bytes out -> compressed bytes needed).
#include "framework.h"
#include <algorithm>
#include <dirent.h>
#include <fstream>
#include <set>
#include <sys/stat.h>

extern "C" {
LHADecoderType *lha_decoder_for_name(char *name);
}

struct Cand {
	std::string method, name, src;
	Bytes comp, plain;
	int mac = 0, os = 0;
	uint32_t ts = 0;
	std::vector<std::pair<uint32_t, uint32_t>> cuts;
};

struct MemSrc { const Bytes *b; size_t pos; };
static size_t mem_cb(void *buf, size_t n, void *u) {
	MemSrc *m = (MemSrc *) u;
	size_t k = std::min(n, m->b->size() - m->pos);
	memcpy(buf, m->b->data() + m->pos, k);
	m->pos += k;
	return k;
}

static void walk(const std::string &dir, std::vector<std::string> &out) {
	DIR *d = opendir(dir.c_str());
	if (!d) return;
	std::vector<std::string> names;
	while (struct dirent *e = readdir(d)) {
		std::string n = e->d_name;
		if (n == "." || n == "..") continue;
		names.push_back(n);
	}
	closedir(d);
	std::sort(names.begin(), names.end());
	for (auto &n : names) {
		std::string p = dir + "/" + n;
		struct stat st;
		if (::stat(p.c_str(), &st) != 0) continue;
		if (S_ISDIR(st.st_mode)) walk(p, out);
		else if (n != "README") out.push_back(p);
	}
}

static bool looks_macbinary(const Bytes &plain, const std::string &name) {
	if (plain.size() < 128) return false;
	if (plain[0] != 0 || plain[0x4a] != 0 || plain[0x52] != 0) return false;
	if (plain[1] != name.size() || name.size() > 63) return false;
	if (memcmp(&plain[2], name.data(), name.size()) != 0) return false;
	uint32_t d = (plain[0x53] << 24) | (plain[0x54] << 16) | (plain[0x55] << 8) | plain[0x56];
	uint32_t r = (plain[0x57] << 24) | (plain[0x58] << 16) | (plain[0x59] << 8) | plain[0x5a];
	return ((d + r + 128 + 0x7f) & ~0x7fu) == plain.size();
}

int corpus_tool_main(int argc, char **argv) {
	if (argc < 4) { fprintf(stderr, "usage: mkcorpus <archives dir> <out dir>\n"); return 2; }
	std::vector<std::string> files;
	walk(argv[2], files);
	std::vector<Cand> cands;
	std::set<uint64_t> seen;
	for (auto &path : files) {
		FILE *f = fopen(path.c_str(), "rb");
		if (!f) continue;
		LHAInputStream *st = lha_input_stream_from_FILE(f);
		LHABasicReader *br = lha_basic_reader_new(st);
		for (;;) {
			LHAFileHeader *h = lha_basic_reader_next_file(br);
			if (!h) break;
			if (!strcmp(h->compress_method, "-lhd-")) continue;
			if (h->compressed_length > 200000 || h->length > 300000) continue;
			Cand c;
			c.method = h->compress_method;
			c.name = h->filename ? h->filename : "";
			c.os = h->os_type;
			c.ts = h->timestamp;
			c.src = path;
			c.comp.resize(h->compressed_length);
			size_t got = 0;
			while (got < c.comp.size()) {
				size_t k = lha_basic_reader_read_compressed(br, c.comp.data() + got, c.comp.size() - got);
				if (k == 0) break;
				got += k;
			}
			if (got != c.comp.size()) continue;
			LHADecoderType *dt = lha_decoder_for_name(h->compress_method);
			if (!dt) continue;
			MemSrc ms{&c.comp, 0};
			LHADecoder *dec = lha_decoder_new(dt, mem_cb, &ms, h->length);
			if (!dec) continue;
			c.plain.resize(h->length);
			size_t out = 0;
			while (out < c.plain.size()) {
				size_t k = lha_decoder_read(dec, c.plain.data() + out, c.plain.size() - out);
				if (k == 0) break;
				out += k;
			}
			lha_decoder_free(dec);
			if (out != h->length || crc16_bitwise(c.plain) != h->crc) {
				fprintf(stderr, "skip (bad crc/len) %s %s\n", path.c_str(), c.name.c_str());
				continue;
			}
			if (c.plain.empty()) continue;
			Fnv hh;
			hh.str(c.method);
			hh.bytes(c.comp);
			hh.u64(c.os == 'm');
			if (!seen.insert(hh.h).second) continue;
			if (c.os == 'm') c.mac = looks_macbinary(c.plain, c.name) ? 1 : 2;   // 2: Mac member without envelope
			// cut points
			static const uint32_t targets[] = {0, 1, 2, 3, 4, 5, 7, 8, 15, 16, 17, 31, 32, 33, 63, 64, 65, 100, 127, 128, 129,
			                                   200, 255, 256, 257, 400, 511, 512, 513, 800, 1000, 1023, 1024, 1025, 1500, 2000,
			                                   2047, 2048, 2049, 3000, 4000, 4095, 4096, 4097, 6000, 8191, 8192, 8193,
			                                   12000, 16383, 16384, 16385, 30000, 65535, 65536, 65537};
			MemSrc ms2{&c.comp, 0};
			LHADecoder *d2 = lha_decoder_new(dt, mem_cb, &ms2, h->length);
			size_t produced = 0;
			size_t ti = 0;
			const size_t nt = sizeof targets / sizeof *targets;
			while (ti < nt && targets[ti] <= c.plain.size()) {
				uint8_t b;
				while (produced < targets[ti]) {
					if (lha_decoder_read(d2, &b, 1) != 1) break;
					++produced;
				}
				if (produced < targets[ti]) break;
				c.cuts.push_back({targets[ti], (uint32_t) ms2.pos});
				++ti;
			}
			lha_decoder_free(d2);
			cands.push_back(c);
		}
		lha_basic_reader_free(br);
		lha_input_stream_free(st);
		fclose(f);
	}
	// selection: per (method, mac class) up to 4 by size spread, plaintext <= 70000 preferred
	std::map<std::string, std::vector<Cand *>> groups;
	for (auto &c : cands) groups[c.method + "/" + std::to_string(c.mac)].push_back(&c);
	std::vector<Cand *> chosen;
	for (auto &g : groups) {
		auto &v = g.second;
		std::sort(v.begin(), v.end(), [](Cand *a, Cand *b) {
			if (a->plain.size() != b->plain.size()) return a->plain.size() < b->plain.size();
			return a->comp < b->comp;
		});
		std::vector<Cand *> ok;
		for (auto *c : v) if (c->plain.size() <= 70000) ok.push_back(c);
		if (ok.empty()) ok.push_back(v.front());
		std::set<size_t> idx = {0, ok.size() / 3, (2 * ok.size()) / 3, ok.size() - 1};
		for (size_t i : idx) chosen.push_back(ok[i]);
	}
	std::string outdir = argv[3];
	std::ofstream bin(outdir + "/payloads.bin", std::ios::binary | std::ios::trunc);
	std::ofstream idx(outdir + "/payloads.idx", std::ios::trunc);
	size_t off = 0;
	std::map<std::string, int> counter;
	// plaintexts are shared between payloads: store each distinct one once
	std::map<uint64_t, size_t> plain_off;
	for (auto *c : chosen) {
		std::string tag = c->method.substr(1, 3);
		if (c->mac) tag += "m";
		std::string id = tag + "_" + std::to_string(counter[tag]++);
		size_t coff = off;
		bin.write((const char *) c->comp.data(), (std::streamsize) c->comp.size());
		off += c->comp.size();
		Fnv ph;
		ph.bytes(c->plain);
		size_t poff;
		auto it = plain_off.find(ph.h);
		if (it != plain_off.end()) poff = it->second;
		else {
			poff = off;
			bin.write((const char *) c->plain.data(), (std::streamsize) c->plain.size());
			off += c->plain.size();
			plain_off[ph.h] = poff;
		}
		idx << "P " << id << " method=" << hex_encode(c->method) << " coff=" << coff << " clen=" << c->comp.size()
		    << " poff=" << poff << " plen=" << c->plain.size() << " mac=" << c->mac << " name=" << (c->name.empty() ? "-" : hex_encode(c->name))
		    << " ts=" << c->ts << " cuts=";
		for (size_t i = 0; i < c->cuts.size(); ++i) idx << (i ? "," : "") << c->cuts[i].first << ":" << c->cuts[i].second;
		idx << " src=" << c->src.substr(c->src.find("archives")) << "\n";
	}
	fprintf(stderr, "mkcorpus: %zu candidates, %zu chosen, %zu bytes\n", cands.size(), chosen.size(), off);
	return 0;
}
