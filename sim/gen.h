// Seeded generators: member specifications (with ground truth), trees,
// hostile names, stored-byte fault operators.  Everything here draws from the
// run's Rng; the result is stored in the plan, so replay never needs this file.
#pragma once
#include "archive.h"

struct TreeOpts {
	int max_entries = 8;
	int max_depth = 3;
	int level = -1;              // -1: per member random 0..3; else fixed
	bool uniform_level = false;  // all members share one random level
	bool dirs = true, symlinks = true, dangerous_links = true;
	bool mac = false;
	bool explicit_dirs_only = false;  // every directory that holds entries has its own entry
	int max_payload = 4096;      // upper bound on member plaintext size
	bool full_payload_sometimes = true;
	bool bad_crc_sometimes = false;   // some members carry a wrong recorded CRC (still well formed)
	int tzoff = 0;
	bool ghosts = false;         // some stored members contain a complete small member as their contents
	bool abs_mix = false;        // some entries spell their path with a leading '/', others of the same directory without
	bool perms = true;
	bool hard_perms = true;      // read-only / search-only / 0000 directories
	std::vector<std::string> methods;   // restrict methods (empty = all)
};

// a file member of the given method and plaintext size budget
Member gen_file(Rng &rng, int level, const std::string &path, const std::string &name, const TreeOpts &o);
Member gen_dir(Rng &rng, int level, const std::string &path, const TreeOpts &o);   // path ends in '/'
Member gen_symlink(Rng &rng, int level, const std::string &path, const std::string &name,
                   const std::string &target, const TreeOpts &o);
void gen_tree(Rng &rng, const TreeOpts &o, std::vector<Member> &out);
std::string gen_name(Rng &rng, int maxlen = 10);
void add_noise_ext(Rng &rng, Member &m);   // extended headers that carry nothing the oracles compare

// encode (path, name, metadata) into the header fields of the given level
void encode_names(Member &m, const std::string &path, const std::string &name_field);
void encode_unix_meta(Member &m, int perms, int uid, int gid, int64_t mtime, int tzoff, bool force_ext_time);

// stored-byte fault operators; return the fault kind applied ("D-BURST", ...)
std::string gen_patch(Rng &rng, const Plan &p, const BuiltArchive &a, Patch &out, bool header_bias);

// library call histories over a reader (next/read/check/extract/isfake)
void gen_history(Rng &rng, Task &t, size_t nmembers, bool with_extract, int max_ops = 40);

extern const char *ALL_METHODS[14];
