// Shared set-up for scenarios that run the real command-line tool in-process.
#pragma once
#include "framework.h"

// Plan knobs read here (all optional):
//   euid umask now tz amtime srckind(FILE_SEEK|FILE_PIPE|FILE_HALFSEEK) trunc errat
//   outbuf write_fail_at write_errno fsfaults=call:n:errno,... canary=1 cwd
// true if some header of the archive declares more than 4 MiB of output (such members are legitimately slow to decode)
bool archive_declares_huge(const Bytes &arch, int64_t trunc);

struct CliEnv {
	SimFS fs;
	SimSource src;
	Rng clockrng;
	int root_ino = -1;       // extraction root (cwd, or the w= directory once it exists)
	int canary_ino = -1;
	std::string canary_before;
	explicit CliEnv(const Plan &p);
	CliResult run(const Plan &p, const Bytes &arch);
};
