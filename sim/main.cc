// simlha: worker / replay / utility entry point of the simulator.
#include "framework.h"
#include <algorithm>
#include <cerrno>
#include <csignal>
#include <cstdlib>
#include <ctime>
#include <fcntl.h>
#include <fstream>
#include <set>
#include <sstream>
#include <sys/time.h>
#include <sys/wait.h>
#include <unistd.h>
#include <unordered_set>

#ifndef VERIF_DIR
#define VERIF_DIR "/verif"
#endif

// Sanitizer failures must be distinguishable from everything else.
extern "C" __attribute__((used, visibility("default"))) const char *__asan_default_options() {
	return "exitcode=77:detect_leaks=0:abort_on_error=0:allocator_may_return_null=1:detect_stack_use_after_return=0:handle_abort=0";
}
extern "C" __attribute__((used, visibility("default"))) const char *__ubsan_default_options() {
	return "halt_on_error=1:exitcode=77:print_stacktrace=1";
}

#ifdef SIM_COV
extern "C" void __gcov_dump(void);
#endif
int corpus_tool_main(int argc, char **argv);
int selftest_main(int argc, char **argv);
int c06_dump(uint64_t seed, uint64_t run, const std::string &outdir);

static double now_s() {
	struct timespec ts;
	clock_gettime(CLOCK_MONOTONIC, &ts);
	return ts.tv_sec + ts.tv_nsec * 1e-9;
}

static void on_vtalrm(int) {
	static const char msg[] = "SIM-HANG: run exceeded its CPU-time watchdog\n";
	if (write(2, msg, sizeof msg - 1) < 0) {}
	_exit(78);
}

static int g_watchdog_secs = 0;
// multi-evaluation runs re-arm the watchdog before every evaluation
void sim_watchdog_kick() {
	if (g_watchdog_secs <= 0) return;
	struct itimerval it;
	memset(&it, 0, sizeof it);
	it.it_value.tv_sec = g_watchdog_secs;
	setitimer(ITIMER_VIRTUAL, &it, nullptr);
}

static void arm_watchdog(int secs) {
	g_watchdog_secs = secs;
	struct itimerval it;
	memset(&it, 0, sizeof it);
	it.it_value.tv_sec = secs;
	setitimer(ITIMER_VIRTUAL, &it, nullptr);
}

static std::string read_file(const std::string &path) {
	std::ifstream f(path, std::ios::binary);
	std::stringstream ss;
	ss << f.rdbuf();
	return ss.str();
}

static void write_file_atomic(const std::string &path, const std::string &data) {
	std::string tmp = path + ".tmp";
	{
		std::ofstream f(tmp, std::ios::binary | std::ios::trunc);
		f << data;
	}
	rename(tmp.c_str(), path.c_str());
}

// ------------------------------------------------------------------ known findings

struct Known { std::string prop, sig, text; };
static std::vector<Known> load_known() {
	std::vector<Known> v;
	std::ifstream f(std::string(VERIF_DIR) + "/known_findings.txt");
	std::string line;
	while (std::getline(f, line)) {
		if (line.compare(0, 8, "finding:") != 0) continue;
		Known k;
		k.text = line.substr(8);
		for (auto &w : split_ws(k.text)) {
			if (w.compare(0, 9, "property=") == 0) k.prop = w.substr(9);
			else if (w.compare(0, 4, "sig=") == 0) k.sig = w.substr(4);
		}
		if (!k.prop.empty() && !k.sig.empty()) v.push_back(k);
	}
	return v;
}

// ------------------------------------------------------------------ worker

struct WorkerState {
	int w = 0, W = 1;
	uint64_t runs = 0, evals = 0, nontrivial = 0, ops = 0, dups = 0, recheck = 0, recheck_bad = 0;
	Counters counters;
	std::map<std::string, uint64_t> known;
	std::map<std::string, std::string> known_detail;
	std::vector<std::string> samples;
	std::string sample_plan;
	struct V { std::string clause, sig, replay, detail; int execs; };
	std::vector<V> viol;
	std::set<std::string> seen_sigs;
	std::unordered_set<uint64_t> hashes;
	std::vector<uint64_t> pending_hashes;
	uint64_t last_index = 0;
	bool done = false;
	double t0 = 0;
	uint64_t task_switches = 0;
};

static std::string summary_json(const WorkerState &s) {
	std::ostringstream o;
	o << "{\"w\":" << s.w << ",\"runs\":" << s.runs << ",\"evals\":" << s.evals << ",\"nontrivial\":" << s.nontrivial
	  << ",\"ops\":" << s.ops << ",\"dups\":" << s.dups << ",\"recheck\":" << s.recheck
	  << ",\"recheck_bad\":" << s.recheck_bad << ",\"last_index\":" << s.last_index
	  << ",\"done\":" << (s.done ? "true" : "false") << ",\"wall\":" << (now_s() - s.t0) << ",\"counters\":{";
	bool first = true;
	for (auto &c : s.counters) { o << (first ? "" : ",") << "\"" << json_escape(c.first) << "\":" << c.second; first = false; }
	o << "},\"known\":{";
	first = true;
	for (auto &k : s.known) { o << (first ? "" : ",") << "\"" << json_escape(k.first) << "\":" << k.second; first = false; }
	o << "},\"known_detail\":{";
	first = true;
	for (auto &k : s.known_detail) { o << (first ? "" : ",") << "\"" << json_escape(k.first) << "\":\"" << json_escape(k.second) << "\""; first = false; }
	o << "},\"samples\":[";
	for (size_t i = 0; i < s.samples.size(); ++i) o << (i ? "," : "") << "\"" << json_escape(s.samples[i]) << "\"";
	o << "],\"sample_plan\":\"" << json_escape(s.sample_plan) << "\",\"viol\":[";
	for (size_t i = 0; i < s.viol.size(); ++i) {
		auto &v = s.viol[i];
		o << (i ? "," : "") << "{\"clause\":\"" << json_escape(v.clause) << "\",\"sig\":\"" << json_escape(v.sig)
		  << "\",\"replay\":\"" << json_escape(v.replay) << "\",\"detail\":\"" << json_escape(v.detail)
		  << "\",\"execs\":" << v.execs << "}";
	}
	o << "]}\n";
	return o.str();
}

static int cmd_work(int argc, char **argv) {
	if (argc < 9) { fprintf(stderr, "usage: work <prop> <tier> <seed> <w> <W> <start> <outdir> [deadline]\n"); return 2; }
	std::string prop = argv[2], tier = argv[3];
	uint64_t seed = strtoull(argv[4], nullptr, 0);
	WorkerState st;
	st.w = atoi(argv[5]);
	st.W = atoi(argv[6]);
	uint64_t start = strtoull(argv[7], nullptr, 0);
	std::string outdir = argv[8];
	double deadline = argc > 9 ? atof(argv[9]) : 0;   // seconds of wall time allowed (0 = none)
	Scenario *sc = find_scenario(prop);
	if (!sc) { fprintf(stderr, "no scenario for %s\n", prop.c_str()); return 2; }
	uint64_t total = sc->total_runs(seed, tier);
	auto known = load_known();
	st.t0 = now_s();
	std::string base = outdir + "/w" + std::to_string(st.w);
	int curfd = ::open((base + ".cur").c_str(), O_CREAT | O_WRONLY | O_TRUNC, 0644);
	int hashfd = ::open((base + ".hashes").c_str(), O_CREAT | O_WRONLY | O_APPEND, 0644);
	signal(SIGVTALRM, on_vtalrm);
	double last_sum = now_s();
	int watchdog = getenv("VERIF_WATCHDOG_S") ? atoi(getenv("VERIF_WATCHDOG_S")) : 10;
	bool stop = false;

	auto flush_state = [&]() {
		if (!st.pending_hashes.empty()) {
			if (write(hashfd, st.pending_hashes.data(), st.pending_hashes.size() * 8) < 0) {}
			st.pending_hashes.clear();
		}
		write_file_atomic(base + ".sum", summary_json(st));
	};

	for (uint64_t i = start; i < total && !stop; ++i) {
		// run i belongs to worker (i + i / W) mod W: every block of W consecutive indices is spread over all workers, rotated
		// by one from block to block, so that generators which key a family on the index modulo a small number (C16: the
		// long self-extractor prefixes are every eighth index) do not load two workers with all the heavy runs
		if ((int)((i + i / (uint64_t) st.W) % (uint64_t) st.W) != st.w) continue;
		Plan plan = sc->generate(seed, i, tier);
		plan.property = prop;
		plan.seed = seed;
		plan.run = i;
		std::string text = plan.to_text();
		if (pwrite(curfd, text.data(), text.size(), 0) < 0) {}
		if (ftruncate(curfd, (off_t) text.size()) < 0) {}
		st.last_index = i;
		arm_watchdog(watchdog);
		Plan narrowed;
		RunResult r = sc->execute(plan, &narrowed);
		g_sim.fs = nullptr;
		arm_watchdog(0);
		st.runs++;
		st.evals += g_sim.counters.count("evals") ? g_sim.counters["evals"] : 1;
		st.ops += r.ops;
		for (auto &c : g_sim.counters) {
			if (c.first == "evals") continue;
			if (c.first.compare(0, 4, "max.") == 0) { if (c.second > st.counters[c.first]) st.counters[c.first] = c.second; }
			else st.counters[c.first] += c.second;
		}
		if (r.nontrivial && st.hashes.insert(r.trace).second) {
			st.nontrivial++;
			st.pending_hashes.push_back(r.trace);
		}
		if (st.samples.size() < 3 && (r.nontrivial || st.runs > 50)) {
			st.samples.push_back(plan.summary());
			if (st.sample_plan.empty() && text.size() < 6000) st.sample_plan = text;
		}
		// determinism sample: every 50th run is executed again and must hash the same
		if (r.ok && (i / (uint64_t) st.W) % 50 == 0) {
			RunResult r2 = sc->execute(plan, nullptr);
			g_sim.fs = nullptr;
			st.recheck++;
			if (r2.trace != r.trace || r2.ok != r.ok) {
				// reported by the orchestrator as a harness fault unless a violation explains it (state carried between runs)
				if (st.recheck_bad++ == 0) {
					fprintf(stderr, "RECHECK-MISMATCH property=%s run=%llu trace %016llx vs %016llx\n", prop.c_str(),
					        (unsigned long long) i, (unsigned long long) r.trace, (unsigned long long) r2.trace);
					write_file_atomic(std::string(VERIF_DIR) + "/replays/nondet-" + prop + "-" + std::to_string(i) + ".plan", text);
				}
			}
		}
		if (!r.ok) {
			const Plan &fp = narrowed.property.empty() ? plan : narrowed;
			Plan failing = fp;
			failing.property = prop;
			failing.seed = seed;
			failing.run = i;
			// gate: same plan again must fail the same way with the same trace
			arm_watchdog(watchdog * 2);
			RunResult g1 = sc->execute(failing, nullptr);
			RunResult g2 = sc->execute(failing, nullptr);
			g_sim.fs = nullptr;
			arm_watchdog(0);
			if (g1.ok || g2.ok || g1.v.clause != r.v.clause || g2.v.clause != g1.v.clause || g1.trace != g2.trace) {
				// The violation is not stable under re-execution inside this process. Either the harness is at fault or the
				// code under test carries state from one run to the next (a static buffer, a cached object). The plan is
				// handed to the orchestrator, which decides by replaying it in fresh processes; nothing is minimised here.
				fprintf(stderr, "UNSTABLE property=%s run=%llu clause=%s: in-process re-execution gave (%d %d %s %s %016llx %016llx)\n",
				        prop.c_str(), (unsigned long long) i, r.v.clause.c_str(), (int) g1.ok, (int) g2.ok,
				        g1.v.clause.c_str(), g2.v.clause.c_str(), (unsigned long long) g1.trace, (unsigned long long) g2.trace);
				if (!st.seen_sigs.count("unstable|" + r.v.clause)) {
					st.seen_sigs.insert("unstable|" + r.v.clause);
					std::string path = std::string(VERIF_DIR) + "/replays/" + prop + "-unstable-" + std::to_string(i) + ".plan";
					failing.expect = r.v.clause;
					write_file_atomic(path, failing.to_text() + "# sig " + r.v.sig + "\n# " + printable(r.v.detail) + "\n");
					st.viol.push_back({"UNSTABLE:" + r.v.clause, r.v.sig, path, r.v.detail, 0});
				} else st.dups++;
				if (st.viol.size() >= 4) stop = true;
				continue;
			}
			bool is_known = false;
			for (auto &k : known)
				if (k.prop == prop && k.sig == g1.v.sig) { is_known = true; break; }
			if (is_known) {
				st.known[g1.v.sig]++;
				if (!st.known_detail.count(g1.v.sig)) st.known_detail[g1.v.sig] = g1.v.detail;
			} else if (st.seen_sigs.count(g1.v.clause + "|" + g1.v.sig)) {
				st.dups++;
			} else {
				st.seen_sigs.insert(g1.v.clause + "|" + g1.v.sig);
				int execs = 0;
				arm_watchdog(watchdog * 20);
				Plan min = minimise(sc, failing, g1.v, tier == "quick" ? 200 : 400, &execs);
				g_sim.fs = nullptr;
				arm_watchdog(0);
				min.expect = g1.v.clause;
				Fnv h;
				h.str(min.to_text());
				std::string path = std::string(VERIF_DIR) + "/replays/" + prop + "-" + strf("%016llx", (unsigned long long) h.h) + ".plan";
				write_file_atomic(path, min.to_text() + "# sig " + g1.v.sig + "\n# " + printable(g1.v.detail) + "\n");
				st.viol.push_back({g1.v.clause, g1.v.sig, path, g1.v.detail, execs});
				if (st.viol.size() >= 4) stop = true;
			}
		}
		double t = now_s();
		if (t - last_sum > 2.0) { flush_state(); last_sum = t; }
		if (deadline > 0 && t - st.t0 > deadline) stop = true;
	}
	st.done = true;
	flush_state();
	close(curfd);
	close(hashfd);
	fflush(nullptr);
	_exit(0);
}

// ------------------------------------------------------------------ replay

static int cmd_replay(int argc, char **argv) {
	if (argc < 3) { fprintf(stderr, "usage: replay <plan>\n"); return 2; }
	std::string text = read_file(argv[2]);
	Plan p;
	std::string err;
	if (!Plan::from_text(text, p, err)) { fprintf(stderr, "bad plan: %s\n", err.c_str()); return 2; }
	Scenario *sc = find_scenario(p.property);
	if (!sc) { fprintf(stderr, "no scenario for %s\n", p.property.c_str()); return 2; }
	signal(SIGVTALRM, on_vtalrm);
	arm_watchdog(getenv("VERIF_WATCHDOG_S") ? atoi(getenv("VERIF_WATCHDOG_S")) : 10);
	RunResult r = sc->execute(p, nullptr);
	g_sim.fs = nullptr;
	arm_watchdog(0);
	if (r.ok) {
		printf("REPLAY ok property=%s trace=%016llx\n", p.property.c_str(), (unsigned long long) r.trace);
		fflush(nullptr);
		_exit(0);
	}
	printf("REPLAY violation property=%s clause=%s sig=%s trace=%016llx\n  %s\n", p.property.c_str(), r.v.clause.c_str(),
	       r.v.sig.c_str(), (unsigned long long) r.trace, printable(r.v.detail).c_str());
	fflush(nullptr);
	_exit(1);
}

// Minimise a plan whose execution kills the process (sanitizer report, abort,
// watchdog): candidates run in short-lived children; a candidate is kept iff
// the child dies with the same exit class.
static int run_child(Scenario *sc, const Plan &p) {
	fflush(nullptr);
	pid_t pid = fork();
	if (pid == 0) {
		int dn = ::open("/dev/null", O_WRONLY);
		dup2(dn, 1);
		dup2(dn, 2);
		signal(SIGVTALRM, on_vtalrm);
		arm_watchdog(10);
		RunResult r = sc->execute(p, nullptr);
		_exit(r.ok ? 0 : 1);
	}
	int status = 0;
	waitpid(pid, &status, 0);
	if (WIFEXITED(status)) return WEXITSTATUS(status);
	return 128 + WTERMSIG(status);
}

static int cmd_shrinkcrash(int argc, char **argv) {
	if (argc < 4) { fprintf(stderr, "usage: shrinkcrash <plan> <out>\n"); return 2; }
	Plan p;
	std::string err;
	if (!Plan::from_text(read_file(argv[2]), p, err)) { fprintf(stderr, "bad plan: %s\n", err.c_str()); return 2; }
	Scenario *sc = find_scenario(p.property);
	if (!sc) return 2;
	int cls = run_child(sc, p);
	if (cls == 0 || cls == 1) { printf("SHRINKCRASH no-crash class=%d\n", cls); return 3; }
	int used = 0, budget = cls == 78 ? 10 : 300;   // every hanging candidate costs a full watchdog period
	bool progress = true;
	while (progress && used < budget) {
		progress = false;
		std::vector<Plan> cands;
		generic_candidates(p, cands);
		sc->extra_candidates(p, cands);
		for (auto &c : cands) {
			if (used >= budget) break;
			++used;
			if (run_child(sc, c) == cls) { p = c; progress = true; break; }
		}
	}
	p.expect = strf("crash.%d", cls);
	write_file_atomic(argv[3], p.to_text());
	printf("SHRINKCRASH class=%d execs=%d out=%s\n", cls, used, argv[3]);
	return 0;
}

static int cmd_count(int argc, char **argv) {
	if (argc < 5) return 2;
	Scenario *sc = find_scenario(argv[2]);
	if (!sc) { fprintf(stderr, "no scenario for %s\n", argv[2]); return 2; }
	std::string real, stub, assume;
	sc->describe(real, stub, assume);
	printf("{\"total\":%llu,\"level\":\"%s\",\"rule\":\"%s\",\"real\":\"%s\",\"stub\":\"%s\",\"assume\":\"%s\",\"crash_is_violation\":%s}\n",
	       (unsigned long long) sc->total_runs(strtoull(argv[4], nullptr, 0), argv[3]), sc->level(),
	       json_escape(sc->nontrivial_rule()).c_str(), json_escape(real).c_str(), json_escape(stub).c_str(),
	       json_escape(assume).c_str(), sc->crash_is_violation() ? "true" : "false");
	return 0;
}

static int cmd_gen(int argc, char **argv) {
	// gen <prop> <tier> <seed> <run>: print the plan of one run
	if (argc < 6) return 2;
	Scenario *sc = find_scenario(argv[2]);
	if (!sc) return 2;
	Plan p = sc->generate(strtoull(argv[4], nullptr, 0), strtoull(argv[5], nullptr, 0), argv[3]);
	p.property = argv[2];
	p.seed = strtoull(argv[4], nullptr, 0);
	p.run = strtoull(argv[5], nullptr, 0);
	fputs(p.to_text().c_str(), stdout);
	return 0;
}

// trace <prop> <tier> <seed> <from> <to> [stride offset]: one line per run with its trace hash (determinism self-test)
static int cmd_trace(int argc, char **argv) {
	if (argc < 7) return 2;
	Scenario *sc = find_scenario(argv[2]);
	if (!sc) return 2;
	std::string tier = argv[3];
	uint64_t seed = strtoull(argv[4], nullptr, 0), from = strtoull(argv[5], nullptr, 0), to = strtoull(argv[6], nullptr, 0);
	uint64_t stride = argc > 7 ? strtoull(argv[7], nullptr, 0) : 1, off = argc > 8 ? strtoull(argv[8], nullptr, 0) : 0;
	bool reverse = getenv("TRACE_REVERSE") != nullptr;
	signal(SIGVTALRM, on_vtalrm);
	std::vector<uint64_t> idx;
	for (uint64_t i = from; i < to; ++i) if (i % stride == off) idx.push_back(i);
	if (reverse) std::reverse(idx.begin(), idx.end());
	for (uint64_t i : idx) {
		Plan plan = sc->generate(seed, i, tier);
		plan.property = argv[2];
		plan.seed = seed;
		plan.run = i;
		arm_watchdog(60);
		RunResult r = sc->execute(plan, nullptr);
		g_sim.fs = nullptr;
		arm_watchdog(0);
		Fnv h;
		h.str(plan.to_text());
		printf("%llu %016llx %016llx %d\n", (unsigned long long) i, (unsigned long long) h.h, (unsigned long long) r.trace, (int) r.ok);
	}
	fflush(nullptr);
#ifdef SIM_COV
	__gcov_dump();
#endif
	_exit(0);
}

// distinct <file>...: number of distinct 64-bit values in the given binary files (worker hash logs)
static int cmd_distinct(int argc, char **argv) {
	std::vector<uint64_t> all;
	for (int i = 2; i < argc; ++i) {
		std::ifstream f(argv[i], std::ios::binary);
		f.seekg(0, std::ios::end);
		size_t n = (size_t) f.tellg() / 8;
		f.seekg(0);
		size_t old = all.size();
		all.resize(old + n);
		f.read((char *) (all.data() + old), (std::streamsize)(n * 8));
	}
	std::sort(all.begin(), all.end());
	size_t d = (size_t)(std::unique(all.begin(), all.end()) - all.begin());
	printf("%zu\n", d);
	return 0;
}

int main(int argc, char **argv) {
	if (argc < 2) { fprintf(stderr, "usage: simlha work|replay|shrinkcrash|count|gen|mkcorpus|selftest ...\n"); return 2; }
	std::string cmd = argv[1];
	if (cmd == "work") return cmd_work(argc, argv);
	if (cmd == "replay") return cmd_replay(argc, argv);
	if (cmd == "shrinkcrash") return cmd_shrinkcrash(argc, argv);
	if (cmd == "count") return cmd_count(argc, argv);
	if (cmd == "gen") return cmd_gen(argc, argv);
	if (cmd == "trace") return cmd_trace(argc, argv);
	if (cmd == "distinct") return cmd_distinct(argc, argv);
	if (cmd == "c06dump" && argc >= 5) { int rc = c06_dump(strtoull(argv[2], nullptr, 0), strtoull(argv[3], nullptr, 0), argv[4]); fflush(nullptr); _exit(rc); }
	if (cmd == "archive" && argc >= 4) {
		// the archive bytes a plan stands for (to run the plain tool on them outside the simulator)
		Plan p; std::string err;
		if (!Plan::from_text(read_file(argv[2]), p, err)) { fprintf(stderr, "%s\n", err.c_str()); return 2; }
		BuiltArchive a = build_archive(p);
		std::ofstream f(argv[3], std::ios::binary);
		f.write((const char *) a.bytes.data(), (std::streamsize) a.bytes.size());
		f.close();
		fflush(nullptr);
		_exit(f.good() ? 0 : 2);
	}
	if (cmd == "mkcorpus") return corpus_tool_main(argc, argv);
	if (cmd == "selftest") return selftest_main(argc, argv);
	fprintf(stderr, "unknown command %s\n", cmd.c_str());
	return 2;
}
