// C08: no archive bytes can make the library or the tool touch invalid memory
// or abort. Everything runs under ASan + UBSan subset; storage corruption,
// truncation and read errors are injected into valid archives of every
// profile, into the repository's own regression archives and into random
// strings behind a valid signature; driven through library call histories
// (all stream kinds, all directory policies, SimFS as uid 0/1000) and through
// the tool's modes in-process.
#include "clienv.h"
#include "driver.h"
#include "gen.h"
#include <algorithm>
#include <dirent.h>
#include <fstream>
#include <sys/stat.h>

static std::vector<Bytes> &repo_archives() {
	static std::vector<Bytes> v;
	static bool loaded = false;
	if (loaded) return v;
	loaded = true;
	const char *repo = getenv("VERIF_REPO");
	std::string base = std::string(repo ? repo : "/repo") + "/test/archives";
	std::vector<std::string> dirs = {base + "/regression", base + "/lha_unix114i", base + "/lharc113", base + "/larc333", base + "/pmarc2",
	                                 base + "/lha_os9_211c", base + "/maclha_224", base + "/lha_amiga_122", base + "/lhark04d", base + "/generated/pm1"};
	for (auto &d : dirs) {
		DIR *dp = opendir(d.c_str());
		if (!dp) continue;
		std::vector<std::string> names;
		while (struct dirent *e = readdir(dp)) names.push_back(e->d_name);
		closedir(dp);
		std::sort(names.begin(), names.end());
		for (auto &n : names) {
			std::string path = d + "/" + n;
			struct stat st;
			if (::stat(path.c_str(), &st) != 0 || !S_ISREG(st.st_mode) || st.st_size > 4000 || st.st_size < 24 || n == "README") continue;
			std::ifstream f(path, std::ios::binary);
			v.push_back(Bytes((std::istreambuf_iterator<char>(f)), std::istreambuf_iterator<char>()));
		}
	}
	return v;
}

struct C08 : Scenario {
	const char *property() const override { return "C08"; }
	uint64_t total_runs(uint64_t, const std::string &tier) override { return tier == "quick" ? 250000 : 10000000; }
	bool crash_is_violation() const override { return true; }
	const char *nontrivial_rule() const override {
		return "a run is one byte string presented as an archive - a generated archive of any profile (trees with all methods, MacBinary "
		       "members, hostile names, extreme length fields), one of the repository's small test archives, or random bytes behind a "
		       "valid signature - with 0-8 stored-byte faults (D-BURST D-BYTE D-FIELD D-SPLICE, biased to headers and length fields), "
		       "optional truncation (S-EOF) or read error (S-ERR), driven either through a seeded library history (next/read/check/"
		       "extract/is_fake, each entry decoded or extracted at most once; 6 stream kinds; 3 directory policies; SimFS as uid "
		       "0/1000) or through one tool mode (l lv v vv t p x xn xf xq xi xw= e with filters) in-process. Oracle: no ASan/UBSan report, "
		       "no signal, no abort(); calls return within the step budget; the tool returns or calls exit(). Non-trivial = at least one "
		       "header was returned and at least one fault was applied; distinct = distinct trace hash";
	}
	void describe(std::string &real, std::string &stub, std::string &assume) const override {
		real = "whole library and tool (unmodified), ASan + UBSan(bounds,null,pointer-overflow,vla-bound,unreachable,return,nonnull-attribute), abort() wrapped";
		stub = "archive sources, SimFS, clock, terminal, scripted stdin";
		assume = "sampling of a corruption neighbourhood, not coverage-guided fuzzing; overflows inside one allocation that UBSan cannot type are invisible; entries declaring more than 4 MiB are read in bounded pieces";
	}
	Plan generate(uint64_t seed, uint64_t run, const std::string &) override {
		Rng rng(seed, 8, run);
		Plan p;
		bool cli = rng.chance(2, 5);
		p.scenario = cli ? "cli" : "lib";
		int base = (int) rng.below(10);
		if (base <= 5) {
			TreeOpts o;
			o.max_entries = 1 + (int) rng.below(6);
			o.max_payload = 600;
			o.mac = rng.chance(1, 3);
			o.bad_crc_sometimes = true;
			gen_tree(rng, o, p.members);
			for (auto &m : p.members)
				if (m.level == 0 && m.kind == 'f' && rng.chance(1, 4)) {
					static const uint8_t firsts[] = {'U', 'K', '9', '9', 'M', 0};
					size_t n = rng.chance(1, 2) ? 12 + rng.below(12) : rng.below(30);
					Bytes e(n);
					for (auto &b : e) b = rng.byte();
					if (n > 0) e[0] = firsts[rng.below(6)];
					if (n > 1 && rng.chance(2, 3)) e[1] = 0;
					if (n > 9 && rng.chance(2, 3)) e[9] = 0xcc;
					if (n >= 12 && (e[0] == 'U' || e[0] == 'K')) e[n - 5] &= 0x0f;
					m.l0ext = e;
				}
			p.sets("base", "generated");
		} else if (base <= 7 && !repo_archives().empty()) {
			p.raw = rng.pick(repo_archives());
			p.sets("base", "repo");
		} else {
			size_t n = 24 + rng.below(400);
			p.raw.resize(n);
			for (auto &b : p.raw) b = rng.byte();
			static const char *sigs[] = {"-lh5-", "-lh0-", "-lhd-", "-lz5-", "-pm2-", "-lh1-", "-lzs-", "-pm1-", "-lh7-"};
			memcpy(&p.raw[2], sigs[rng.below(9)], 5);
			p.raw[20] = (uint8_t) rng.below(4);
			if (rng.chance(1, 2)) { p.raw[0] = (uint8_t)(22 + rng.below(60)); unsigned s = 0; for (size_t i = 2; i < 2u + p.raw[0] && i < n; ++i) s += p.raw[i]; p.raw[1] = (uint8_t) s; }
			p.sets("base", "random");
		}
		BuiltArchive a = build_archive(p);
		int nf = rng.chance(1, 6) ? 0 : 1 + (int) rng.below(8);
		for (int i = 0; i < nf; ++i) { Patch q; std::string k = gen_patch(rng, p, a, q, true); p.patches.push_back(q); }
		p.seti("nfaults", nf);
		int64_t trunc = rng.chance(1, 6) ? (int64_t) rng.below(a.bytes.size() + 1) : -1;
		int64_t errat = rng.chance(1, 12) ? (int64_t) rng.below(a.bytes.size() + 1) : -1;
		p.seti("euid", rng.chance(1, 2) ? 0 : 1000);
		if (cli) {
			static const char *cmds[] = {"l", "lv", "v", "vv", "t", "p", "xf", "xn", "xq", "xfi", "xfw=out", "ef", "tq1", "pq", "xq1", "vq", "en", "xfv"};
			p.argv = {"lha", cmds[rng.below(18)], rng.chance(1, 6) ? "-" : "/w/a.lzh"};
			if (rng.chance(1, 5)) p.argv.push_back(rng.chance(1, 2) ? "*" : "*a*");
			if (p.argv[2] == "-") p.sets("srckind", rng.chance(1, 2) ? "FILE_PIPE" : "FILE_SEEK");
			else if (rng.chance(1, 4)) p.sets("srckind", rng.chance(1, 2) ? "FILE_PIPE" : "FILE_HALFSEEK");
			p.seti("trunc", trunc);
			p.seti("errat", errat);
			p.seti("canary", 1);
			// (not the first three allocations: the tool dereferences the stream/reader it failed to create; start-up under OOM is outside every listed property)
			if (rng.chance(1, 6)) p.seti("afail", 3 + (int64_t) rng.below(80));
		} else {
			Task t;
			static const char *kinds[] = {"FILE_SEEK", "FILE_PIPE", "FILE_HALFSEEK", "CB_SKIP", "CB_NOSKIP"};
			t.kind = kinds[rng.below(5)];
			t.skippast = (int) rng.below(2);
			t.seekerr = (int) rng.below(2);
			t.policy = (int) rng.below(3);
			t.trunc = trunc;
			t.errat = errat;
			if (rng.chance(1, 20)) t.skipfail = (int64_t) rng.below(3);
			t.dir = "/w/x/y/root";
			gen_history(rng, t, std::max<size_t>(2, p.members.size()), true, 36);
			for (auto &op : t.ops) if (op.kind == "extract" && rng.chance(1, 4)) op.arg = 1;
			p.tasks.push_back(t);
		}
		return p;
	}
	RunResult execute(const Plan &p, Plan *) override {
		begin_run(p);
		RunResult res;
		BuiltArchive a = build_archive(p);
		uint64_t headers = 0;
		if (p.scenario == "cli") {
			// Work is bounded by the declared length, as stated (C13): a member declaring hundreds of megabytes is
			// legitimately slow to decode. Such archives are listed instead of decoded in the tool scenario.
			Plan pp = p;
			{
				Task t;
				t.kind = "FILE_SEEK";
				t.trunc = p.geti("trunc", -1);
				for (int i = 0; i < 40; ++i) { Op n; n.kind = "next"; t.ops.push_back(n); }
				DriveOpts o;
				o.stop_at_null = true;
				o.budget = 100000 + 64 * a.bytes.size();
				bool tr = g_sim.tracing;
				g_sim.tracing = false;
				DriveOut d = drive_reader(t, a.bytes, o);
				g_sim.tracing = tr;
				bool huge = false;
				for (auto &ob : d.obs) if (!ob.hdr.null && ob.hdr.length > (4u << 20)) huge = true;
				char c0 = pp.argv[1][0];
				bool decodes = (c0 == 't' || c0 == 'p' || c0 == 'x' || c0 == 'e') && pp.argv[1].find('n') == std::string::npos;
				if (huge && decodes) { pp.argv[1] = "v"; count("probe.huge_declared_length_listed_instead"); }
			}
			const Plan &p = pp;
			CliEnv env(p);
			g_sim.budget = 400000 + 256 * a.bytes.size();
			CliResult r = env.run(p, a.bytes);
			if (r.budget) res.fail("C08.budget", "budget:cli", "'lha " + p.argv[1] + "' did not finish within the step budget");
			trace_str(r.out);
			trace_u64((uint64_t) r.status);
			std::string cm = p.argv[1];
			size_t bad;
			if (res.ok && cm[0] != 'p' && !c18_output_ok(r.out + r.err, &bad)) {
				std::string all = r.out + r.err;
				res.fail("C18.printable", std::string("printable:c08:") + cm[0], strf("byte 0x%02x on the terminal from 'lha %s'", (unsigned char) all[bad], cm.c_str()));
			}
			headers = r.out.size() > 0;
			count("kind.cli." + cm);
		} else if (!p.tasks.empty()) {
			CliEnv env(p);   // only for its filesystem
			g_sim.fs = &env.fs;
			DriveOpts o;
			o.budget = 200000 + 64 * a.bytes.size();
			DriveOut d = drive_reader(p.tasks[0], a.bytes, o);
			g_sim.fs = nullptr;
			if (d.budget) res.fail("C08.budget", "budget:lib:" + d.budget_api, "a library call (" + d.budget_api + ") did not return within the step budget");
			else if (d.c11_bad) res.fail("C11.invariant", "c11", d.c11_why);
			for (auto &ob : d.obs) {
				if (ob.kind == "next" && !ob.hdr.null) ++headers;
				if ((ob.kind == "read" || ob.kind == "readall") && ob.result < 0 && res.ok) res.fail("C08.read_exceeds", "read_exceeds", "lha_reader_read returned more than requested");
			}
			count("kind.lib." + p.tasks[0].kind);
			count(strf("kind.policy.%d", p.tasks[0].policy));
		}
		count("kind.base." + p.gets("base"));
		if (p.geti("nfaults")) count("fault.D-PATCH", (uint64_t) p.geti("nfaults"));
		res.ops = 1;
		res.nontrivial = headers > 0 && p.geti("nfaults") > 0;
		res.trace = finish_trace();
		return res;
	}
};
REGISTER_SCENARIO(C08);
