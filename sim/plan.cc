#include "plan.h"
#include <cstdlib>
#include <sstream>

int64_t Plan::geti(const std::string &k, int64_t d) const {
	auto it = cfg.find(k);
	return it == cfg.end() ? d : strtoll(it->second.c_str(), nullptr, 0);
}
std::string Plan::gets(const std::string &k, const std::string &d) const {
	auto it = cfg.find(k);
	return it == cfg.end() ? d : it->second;
}
void Plan::seti(const std::string &k, int64_t v) { cfg[k] = std::to_string(v); }

static std::string hx(const Bytes &b) { return b.empty() ? "-" : hex_encode(b); }
static std::string hx(const std::string &s) { return s.empty() ? "-" : hex_encode(s); }

std::string Plan::to_text() const {
	std::ostringstream o;
	o << "plan 1\n";
	o << "property " << property << "\n";
	o << "scenario " << scenario << "\n";
	o << "seed " << seed << " run " << run << "\n";
	if (!cfg.empty()) {
		o << "cfg";
		for (auto &kv : cfg) o << " " << kv.first << "=" << (kv.second.empty() ? "-" : kv.second);
		o << "\n";
	}
	if (!prefix.empty()) o << "prefix " << hx(prefix) << "\n";
	if (!raw.empty()) o << "raw " << hx(raw) << "\n";
	for (auto &m : members) {
		o << "member level=" << m.level << " method=" << hx(m.method) << " os=" << (int) m.os
		  << " attr=" << (int) m.attr << " time=" << m.time << " inname=" << hx(m.inname)
		  << " l0ext=" << hx(m.l0ext);
		o << " ext=";
		if (m.ext.empty()) o << "-";
		for (size_t i = 0; i < m.ext.size(); ++i) {
			if (i) o << ",";
			o << (int) m.ext[i].type << ":" << hx(m.ext[i].data) << (m.ext[i].auto_crc ? ":crc" : "");
		}
		if (!m.payload.empty()) o << " payload=" << m.payload << " cut=" << m.cut << " take=" << m.take;
		else o << " data=" << hx(m.data);
		if (m.packed >= 0) o << " packed=" << m.packed;
		if (m.orig >= 0) o << " orig=" << m.orig;
		if (m.crc >= 0) o << " crc=" << m.crc;
		if (m.hdrlen >= 0) o << " hdrlen=" << m.hdrlen;
		if (m.csum >= 0) o << " csum=" << m.csum;
		if (m.wordsz >= 0) o << " wordsz=" << m.wordsz;
		o << " kind=" << m.kind << " gpath=" << hx(m.gpath) << " gname=" << hx(m.gname)
		  << " gtarget=" << hx(m.gtarget);
		if (m.payload.empty()) o << " plain=" << hx(m.plain);
		o << " gmtime=" << m.gmtime << " gperms=" << m.gperms << " guid=" << m.guid << " ggid=" << m.ggid
		  << " gos9=" << m.gos9 << " mac=" << m.mac << "\n";
	}
	for (auto &p : patches)
		o << "patch m=" << p.member << " off=" << p.off << " op=" << p.op << " val=" << hx(p.val)
		  << " len=" << p.len << "\n";
	for (auto &f : fs)
		o << "fs type=" << f.type << " path=" << hx(f.path) << " mode=" << f.mode << " uid=" << f.uid
		  << " gid=" << f.gid << " mtime=" << f.mtime << " data=" << hx(f.data) << " target=" << hx(f.target)
		  << "\n";
	for (size_t t = 0; t < tasks.size(); ++t) {
		auto &k = tasks[t];
		o << "task kind=" << k.kind << " policy=" << k.policy << " trunc=" << k.trunc << " errat=" << k.errat
		  << " skipfail=" << k.skipfail << " seekerr=" << k.seekerr << " skippast=" << k.skippast << (k.endless ? " endless=1" : "") << (k.prepos ? " prepos=" + std::to_string(k.prepos) : std::string(""))
		  << (k.erronce ? " erronce=1" : "") << (k.errerrno != 5 ? " errerrno=" + std::to_string(k.errerrno) : std::string(""))
		  << " dir=" << hx(k.dir) << "\n";
		for (auto &op : k.ops)
			o << "op " << t << " " << op.kind << " arg=" << op.arg << " name=" << hx(op.name)
			  << " mon=" << op.mon << "\n";
	}
	if (!sched.empty()) {
		o << "sched";
		for (int s : sched) o << " " << s;
		o << "\n";
	}
	if (!argv.empty()) {
		o << "argv";
		for (auto &a : argv) o << " " << hx(a);
		o << "\n";
	}
	if (!stdin_script.empty()) o << "stdin " << hx(stdin_script) << "\n";
	if (!stream.empty()) o << "stream " << hx(stream) << "\n";
	if (!reads.empty()) {
		o << "reads";
		for (auto r : reads) o << " " << r;
		o << "\n";
	}
	if (!expect.empty()) o << "expect " << expect << "\n";
	return o.str();
}

static KV parse_kv(const std::vector<std::string> &w, size_t from) {
	KV kv;
	for (size_t i = from; i < w.size(); ++i) {
		size_t e = w[i].find('=');
		if (e == std::string::npos) kv[w[i]] = "";
		else kv[w[i].substr(0, e)] = w[i].substr(e + 1);
	}
	return kv;
}
static int64_t ki(const KV &kv, const char *k, int64_t d) {
	auto it = kv.find(k);
	return it == kv.end() ? d : strtoll(it->second.c_str(), nullptr, 0);
}
static std::string kh(const KV &kv, const char *k) {
	auto it = kv.find(k);
	return it == kv.end() ? "" : hex_str(it->second);
}
static Bytes kb(const KV &kv, const char *k) {
	auto it = kv.find(k);
	return it == kv.end() ? Bytes() : hex_bytes(it->second);
}

bool Plan::from_text(const std::string &text, Plan &p, std::string &err) {
	p = Plan();
	std::istringstream in(text);
	std::string line;
	while (std::getline(in, line)) {
		size_t hash = line.find('#');
		if (hash != std::string::npos) line = line.substr(0, hash);
		auto w = split_ws(line);
		if (w.empty()) continue;
		const std::string &k = w[0];
		if (k == "plan") continue;
		else if (k == "property") p.property = w.size() > 1 ? w[1] : "";
		else if (k == "scenario") p.scenario = w.size() > 1 ? w[1] : "";
		else if (k == "seed") {
			if (w.size() > 1) p.seed = strtoull(w[1].c_str(), nullptr, 0);
			if (w.size() > 3) p.run = strtoull(w[3].c_str(), nullptr, 0);
		} else if (k == "cfg") {
			KV kv = parse_kv(w, 1);
			for (auto &e : kv) p.cfg[e.first] = e.second == "-" ? "" : e.second;
		} else if (k == "prefix") p.prefix = hex_bytes(w.size() > 1 ? w[1] : "");
		else if (k == "raw") p.raw = hex_bytes(w.size() > 1 ? w[1] : "");
		else if (k == "member") {
			KV kv = parse_kv(w, 1);
			Member m;
			m.level = (int) ki(kv, "level", 0);
			m.method = kh(kv, "method");
			m.os = (uint8_t) ki(kv, "os", 'U');
			m.attr = (uint8_t) ki(kv, "attr", 0x20);
			m.time = (uint32_t) ki(kv, "time", 0);
			m.inname = kb(kv, "inname");
			m.l0ext = kb(kv, "l0ext");
			std::string ext = kv.count("ext") ? kv["ext"] : "-";
			if (ext != "-" && !ext.empty()) {
				for (auto &e : split_ch(ext, ',')) {
					auto f = split_ch(e, ':');
					ExtHdr h;
					h.type = (uint8_t) atoi(f[0].c_str());
					if (f.size() > 1) h.data = hex_bytes(f[1]);
					h.auto_crc = f.size() > 2 && f[2] == "crc";
					m.ext.push_back(h);
				}
			}
			if (kv.count("payload")) {
				m.payload = kv["payload"];
				m.cut = ki(kv, "cut", -1);
				m.take = ki(kv, "take", -1);
			} else m.data = kb(kv, "data");
			m.packed = ki(kv, "packed", -1);
			m.orig = ki(kv, "orig", -1);
			m.crc = ki(kv, "crc", -1);
			m.hdrlen = ki(kv, "hdrlen", -1);
			m.csum = ki(kv, "csum", -1);
			m.wordsz = ki(kv, "wordsz", -1);
			std::string kd = kv.count("kind") ? kv["kind"] : "f";
			m.kind = kd.empty() ? 'f' : kd[0];
			m.gpath = kh(kv, "gpath");
			m.gname = kh(kv, "gname");
			m.gtarget = kh(kv, "gtarget");
			m.plain = kb(kv, "plain");
			m.gmtime = ki(kv, "gmtime", 0);
			m.gperms = (int) ki(kv, "gperms", -1);
			m.guid = (int) ki(kv, "guid", -1);
			m.ggid = (int) ki(kv, "ggid", -1);
			m.gos9 = (int) ki(kv, "gos9", -1);
			m.mac = (int) ki(kv, "mac", 0);
			p.members.push_back(m);
		} else if (k == "patch") {
			KV kv = parse_kv(w, 1);
			Patch q;
			q.member = (int) ki(kv, "m", -1);
			q.off = (uint32_t) ki(kv, "off", 0);
			std::string op = kv.count("op") ? kv["op"] : "x";
			q.op = op.empty() ? 'x' : op[0];
			q.val = kb(kv, "val");
			q.len = (uint32_t) ki(kv, "len", 0);
			p.patches.push_back(q);
		} else if (k == "fs") {
			KV kv = parse_kv(w, 1);
			FsEnt f;
			std::string t = kv.count("type") ? kv["type"] : "d";
			f.type = t.empty() ? 'd' : t[0];
			f.path = kh(kv, "path");
			f.mode = (int) ki(kv, "mode", 0755);
			f.uid = (int) ki(kv, "uid", 1000);
			f.gid = (int) ki(kv, "gid", 1000);
			f.mtime = ki(kv, "mtime", 1000000000);
			f.data = kb(kv, "data");
			f.target = kh(kv, "target");
			p.fs.push_back(f);
		} else if (k == "task") {
			KV kv = parse_kv(w, 1);
			Task t;
			t.kind = kv.count("kind") ? kv["kind"] : "FILE_SEEK";
			t.policy = (int) ki(kv, "policy", 0);
			t.trunc = ki(kv, "trunc", -1);
			t.errat = ki(kv, "errat", -1);
			t.skipfail = ki(kv, "skipfail", -1);
			t.seekerr = (int) ki(kv, "seekerr", 0);
			t.skippast = (int) ki(kv, "skippast", 0);
			t.endless = (int) ki(kv, "endless", 0);
			t.prepos = ki(kv, "prepos", 0);
			t.erronce = (int) ki(kv, "erronce", 0);
			t.errerrno = (int) ki(kv, "errerrno", 5);
			t.dir = kh(kv, "dir");
			p.tasks.push_back(t);
		} else if (k == "op") {
			if (w.size() < 3) { err = "bad op line"; return false; }
			size_t t = strtoul(w[1].c_str(), nullptr, 0);
			if (t >= p.tasks.size()) { err = "op for unknown task"; return false; }
			KV kv = parse_kv(w, 3);
			Op op;
			op.kind = w[2];
			op.arg = ki(kv, "arg", 0);
			op.name = kh(kv, "name");
			op.mon = (int) ki(kv, "mon", 0);
			p.tasks[t].ops.push_back(op);
		} else if (k == "sched") {
			for (size_t i = 1; i < w.size(); ++i) p.sched.push_back(atoi(w[i].c_str()));
		} else if (k == "argv") {
			for (size_t i = 1; i < w.size(); ++i) p.argv.push_back(hex_str(w[i]));
		} else if (k == "stdin") p.stdin_script = hex_str(w.size() > 1 ? w[1] : "");
		else if (k == "stream") p.stream = hex_bytes(w.size() > 1 ? w[1] : "");
		else if (k == "reads") {
			for (size_t i = 1; i < w.size(); ++i) p.reads.push_back((uint32_t) strtoul(w[i].c_str(), nullptr, 0));
		} else if (k == "expect") p.expect = w.size() > 1 ? w[1] : "";
		else { err = "unknown plan line: " + k; return false; }
	}
	if (p.property.empty()) { err = "no property line"; return false; }
	return true;
}

std::string Plan::summary() const {
	std::ostringstream o;
	o << property << "/" << scenario << " run=" << run;
	for (auto &kv : cfg) o << " " << kv.first << "=" << kv.second;
	if (!members.empty()) {
		o << " members=[";
		for (size_t i = 0; i < members.size(); ++i) {
			auto &m = members[i];
			if (i) o << " ";
			o << "L" << m.level << ":" << printable(m.method) << ":" << m.kind << ":" << printable(m.gpath + m.gname);
			if (m.kind == 'l') o << "->" << printable(m.gtarget);
		}
		o << "]";
	}
	if (!prefix.empty()) o << " prefix=" << prefix.size() << "B";
	if (!raw.empty()) o << " raw=" << raw.size() << "B";
	if (!patches.empty()) o << " patches=" << patches.size();
	for (size_t t = 0; t < tasks.size(); ++t) {
		o << " task" << t << "{" << tasks[t].kind << " pol=" << tasks[t].policy;
		if (tasks[t].trunc >= 0) o << " eof@" << tasks[t].trunc;
		if (tasks[t].errat >= 0) o << " err@" << tasks[t].errat;
		o << " ops=";
		for (auto &op : tasks[t].ops) {
			o << op.kind[0];
			if (op.kind == "read") o << op.arg;
		}
		o << "}";
	}
	if (!sched.empty()) o << " sched=" << sched.size();
	if (!argv.empty()) {
		o << " argv=";
		for (auto &a : argv) o << printable(a) << " ";
	}
	if (!stream.empty()) o << " stream=" << stream.size() << "B reads=" << reads.size();
	return o.str();
}
