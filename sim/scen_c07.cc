// C07: a member is reported good only if the bytes produced have the recorded
// length and CRC-16. Storage faults (every truncation offset, every burst of
// up to 16 bits in stored members, wrong recorded CRC/length, random damage in
// compressed data) are the workload; verdicts of the library and of the tool
// are compared with an independent judgement of the bytes actually produced.
#include "clienv.h"
#include "driver.h"
#include "gen.h"

static const char *K5[] = {"FILE_SEEK", "FILE_PIPE", "FILE_HALFSEEK", "CB_SKIP", "CB_NOSKIP"};

static bool supported_method(const std::string &m) {
	for (int i = 0; i < 14; ++i) if (m == ALL_METHODS[i]) return true;
	return false;
}

struct MemberJudgement { HeaderObs h; Bytes out; int verdict = 0; bool expect_good = false; };

struct C07 : Scenario {
	const char *property() const override { return "C07"; }
	const char *level() const override { return "fault_enumeration"; }
	uint64_t total_runs(uint64_t, const std::string &tier) override { return tier == "quick" ? 1200 : 60000; }
	const char *nontrivial_rule() const override {
		return "a run is one generated archive of 1-5 members (all 14 methods, no MacLHA members) plus one family of storage faults, each "
		       "fault one evaluation: (a) truncation at EVERY byte offset (strided above 1200), (b) for stored members bursts of 1-16 "
		       "flipped bits (consecutive in the bit order CRC-16/ARC processes: LSB of each byte first) at EVERY bit offset x every burst length (interior bits seeded), (c) recorded CRC or length rewritten to a "
		       "wrong value with header integrity repaired, (d) seeded damage inside compressed data, (e) F-WRITE: the output medium fails from byte n on, for every n (strided above 600), under several stdio buffer sizes, (f) several decode operations on one entry (check,extract / read,extract / ...). Per evaluation every member's check "
		       "verdict is compared with [len(bytes produced) == recorded length and bitwise CRC-16(bytes) == recorded CRC], the bytes "
		       "being captured by a twin reader; sampled evaluations also run 'lha t' / 'lha x' in-process and compare the "
		       "Tested/Melted/CRC error/Failure lines, the extracted files and the exit status. Non-trivial = at least one member judged "
		       "bad and one judged good in the run; distinct = distinct trace hash";
	}
	void describe(std::string &real, std::string &stub, std::string &assume) const override {
		real = "lib/lha_reader.c (do_decode, check, extract), lib/lha_decoder.c, lib/crc16.c, decoders, src/extract.c, src/main.c (unmodified)";
		stub = "archive sources (5 kinds rotating), SimFS for extraction, terminal; stored-byte faults on the served archive";
		assume = "the bytes a member yields are taken from a twin reader using lha_reader_read (C14/C15 decide that reads are history-invariant); MacBinary members excluded";
	}
	Plan generate(uint64_t seed, uint64_t run, const std::string &) override {
		Rng rng(seed, 7, run);
		Plan p;
		static const char *fams[] = {"truncate", "burst", "rewrite", "damage", "write_fault", "api_sequence"};
		std::string fam = fams[run % 6];
		p.scenario = fam;
		TreeOpts o;
		o.max_entries = 1 + (int) rng.below(5);
		o.dirs = rng.chance(1, 3);
		o.symlinks = false;
		o.max_payload = 400;
		o.full_payload_sometimes = false;
		o.hard_perms = false;
		if (fam == "burst") { o.methods = {"-lh0-", "-lz4-", "-pm0-", "-lh0-"}; o.max_entries = 1 + (int) rng.below(3); }
		gen_tree(rng, o, p.members);
		// stored members carry exactly their plaintext, so that every data byte matters
		for (auto &m : p.members)
			if (m.kind == 'f' && !m.payload.empty() && (m.method == "-lh0-" || m.method == "-lz4-" || m.method == "-pm0-")) {
				if (m.cut < 0 || m.cut > 300) m.cut = 129;
				m.plain = member_plain(m);
				m.data = m.plain;
				m.payload.clear();
				m.cut = -1;
			}
		// members of length 0 (of any method name), with and without data behind the header, right and wrong recorded CRC
		if (fam != "burst" && rng.chance(1, 5))
			for (auto &m : p.members)
				if (m.kind == 'f' && rng.chance(1, 2)) {
					bool keep_data = rng.chance(1, 3);
					Bytes d = keep_data ? member_data(m) : Bytes();
					m.payload.clear(); m.cut = -1;
					m.plain.clear();
					m.data = d;
					m.orig = 0;
					m.crc = rng.chance(1, 3) ? (int64_t) (1 + rng.below(65535)) : 0;
					p.sets("empty_members", "1");
				}
		// stored members that end in a run of zero bytes or repeat themselves every 1024 bytes: a reader that hands out
		// stale buffer contents for bytes the input no longer holds would get length and CRC right by accident
		if (fam == "truncate")
			for (auto &m : p.members)
				if (m.kind == 'f' && m.payload.empty() && !m.plain.empty() && (m.method == "-lh0-" || m.method == "-lz4-" || m.method == "-pm0-") && rng.chance(1, 2)) {
					if (rng.chance(1, 2)) { size_t k = 1 + rng.below(std::min<size_t>(m.plain.size(), 120)); for (size_t i = m.plain.size() - k; i < m.plain.size(); ++i) m.plain[i] = 0; }
					else { size_t n = 1100 + rng.below(1200); Bytes pl(n); for (size_t i = 0; i < n; ++i) pl[i] = i < 1024 ? (uint8_t) (i * 31 + 7) : pl[i - 1024]; m.plain = pl; }
					m.data = m.plain;
				}
		if (fam == "burst") for (auto &m : p.members) if (m.kind == 'f' && m.payload.empty() && m.plain.size() > 24) { m.plain.resize(24); m.data = m.plain; }
		if (fam == "burst") for (auto &m : p.members) if (m.kind == 'f' && !m.payload.empty()) { if (m.cut < 0 || m.cut > 32) m.cut = 17; }
		if (fam == "rewrite") {
			for (auto &m : p.members) {
				if (m.kind != 'f' || !rng.chance(2, 3)) continue;
				Bytes plain = member_plain(m);
				if (rng.chance(1, 6)) m.crc = crc16_bitwise(plain) == 0 ? 1 : 0;   // a recorded CRC of exactly zero is a CRC like any other
				else if (rng.chance(1, 2)) m.crc = (crc16_bitwise(plain) ^ (1 + rng.below(65535))) & 0xffff;
				else {
					int64_t n = (int64_t) plain.size();
					static const int64_t d[] = {1, -1, 2, 100, -5, 65536};
					int64_t nn = n + d[rng.below(6)];
					m.orig = nn < 0 ? 0 : nn;
					if (m.orig == n) m.orig = n + 1;
				}
			}
		}
		if (fam == "damage") {
			BuiltArchive a = build_archive(p);
			int np = 1 + (int) rng.below(4);
			for (int i = 0; i < np; ++i) {
				size_t mi = rng.below(a.layout.size());
				const MemberLayout &L = a.layout[mi];
				if (L.data_len == 0) continue;
				Patch q;
				q.member = (int) mi;
				q.off = (uint32_t)(L.hdr_len + rng.below(L.data_len));
				q.op = rng.chance(1, 2) ? 'x' : '=';
				size_t n = 1 + rng.below(4);
				for (size_t k = 0; k < n; ++k) q.val.push_back(q.op == 'x' ? (uint8_t)(1u << rng.below(8)) : rng.byte());
				p.patches.push_back(q);
			}
		}
		if (fam == "rewrite" && rng.chance(1, 10)) {
			// the exit status stands for ALL selected members, however many of them fail: 255, 256, 257, 512 ... failures
			p.members.clear();
			static const int counts[] = {255, 256, 257, 512, 256, 300};
			int n = counts[rng.below(6)], good = (int) rng.below(3);
			TreeOpts so;
			so.methods = {"-lh0-"};
			so.max_payload = 3;
			so.full_payload_sometimes = false;
			so.perms = false;
			for (int i = 0; i < n + good; ++i) {
				Member m = gen_file(rng, (int) rng.below(3), "", "m" + std::to_string(i), so);
				m.plain = member_plain(m); m.data = m.plain; m.payload.clear(); m.cut = -1;
				if (i >= good) m.crc = (crc16_bitwise(m.plain) ^ (1 + rng.below(65535))) & 0xffff;
				p.members.push_back(m);
			}
			p.sets("many_bad", "1");
		}
		p.seti("euid", rng.chance(1, 2) ? 0 : 1000);
		static const char *tq[] = {"t", "tq0", "tq1", "xf", "xq0", "xq1", "tv", "ef", "xq2", "xq", "eq2", "tq2", "tq", "xfq2"};
		p.sets("clicmd", tq[rng.below(14)]);
		// file-name arguments: everything ("*"), or some members by name (the verdict then concerns the selected ones)
		if (fam != "write_fault" && rng.chance(1, 3)) {
			bool plain_names = true;
			for (auto &m : p.members) if ((m.gpath + m.gname).find_first_of("*?[]\\") != std::string::npos || (m.gpath + m.gname).empty()) plain_names = false;
			if (!plain_names || rng.chance(1, 2) || p.members.size() > 50) p.sets("clipat", "*");
			else {
				std::string s;
				for (auto &m : p.members) if (m.kind == 'f' && rng.chance(2, 3)) s += (s.empty() ? "" : "\n") + m.gpath + m.gname;
				if (s.empty()) s = "*";
				p.sets("clipat", s);
			}
		}
		if (fam == "rewrite" && rng.chance(1, 3)) {
			// a well-formed header naming a method for which there is no decoder: nothing is produced, so it cannot be good
			static const char *um[] = {"-lh2-", "-lh3-", "-lzz-", "-pm3-", "-lh8-"};
			for (auto &m : p.members) if (m.kind == 'f' && rng.chance(1, 2) && !member_plain(m).empty()) { Bytes pl = member_plain(m); m.plain = pl; m.data = member_data(m); m.payload.clear(); m.cut = -1; m.method = um[rng.below(5)]; }
		}
		if (fam == "write_fault") {
			static const char *xq[] = {"xf", "xq0", "xq1", "ef"};
			p.sets("clicmd", xq[rng.below(4)]);
			static const int bufs[] = {0, 1, 64, 512, 0};
			p.seti("outbuf", bufs[rng.below(5)]);
			static const int errs[] = {28, 5, 27, 122, 4};   // ENOSPC EIO EFBIG EDQUOT EINTR
			p.seti("write_errno", errs[rng.below(5)]);
			// a lasting refusal (disk full) or a transient one (a single write call is cut short, the next succeeds)
			if (rng.chance(1, 2)) p.seti("write_once", 1);
		}
		return p;
	}
	// library-level judgement of one faulted archive
	bool judge_lib(const Plan &p, const Bytes &arch, int64_t trunc, int ki, std::vector<MemberJudgement> &js, RunResult &res, const std::string &what, bool &budget) {
		Task t;
		t.kind = K5[ki % 5];
		t.trunc = trunc;
		Task tr = t, tc = t;
		for (int i = 0; i < 12; ++i) {
			Op n; n.kind = "next";
			tr.ops.push_back(n); tc.ops.push_back(n);
			Op r; r.kind = "readall"; r.arg = 509; tr.ops.push_back(r);
			Op c; c.kind = "check"; c.mon = i & 1; tc.ops.push_back(c);
		}
		DriveOpts o;
		o.stop_at_null = true;
		o.budget = 20000 + 16 * arch.size();
		DriveOut dr = drive_reader(tr, arch, o);
		DriveOut dc = drive_reader(tc, arch, o);
		budget = dr.budget || dc.budget;
		if (budget) { res.fail("C07.budget", "budget", what + ": a call did not return within the step budget"); return false; }
		js.clear();
		for (size_t i = 0; i + 1 < dr.obs.size() && i + 1 < dc.obs.size(); i += 2) {
			if (dr.obs[i].hdr.null || dc.obs[i].hdr.null) break;
			MemberJudgement j;
			j.h = dr.obs[i].hdr;
			j.out = dr.obs[i + 1].data;
			j.verdict = dc.obs[i + 1].result;
			j.expect_good = j.out.size() == j.h.length && crc16_bitwise(j.out) == j.h.crc;
			js.push_back(j);
		}
		for (size_t i = 0; i < js.size(); ++i) {
			const MemberJudgement &j = js[i];
			if (j.h.method == "-lhd-") continue;
			if (j.h.os == 'm') continue;
			std::string ctx = what + strf(": member %zu %s (%s, %zu bytes produced, recorded length %llu crc %04x, produced crc %04x)", i,
			                              printable(j.h.full()).c_str(), j.h.method.c_str(), j.out.size(), (unsigned long long) j.h.length, j.h.crc, crc16_bitwise(j.out));
			if (j.verdict && !j.expect_good) { res.fail("C07.good_but_mismatch", std::string("lib:check:") + (j.out.size() != j.h.length ? "length" : "crc"), ctx + ": lha_reader_check reported success"); return false; }
			if (!j.verdict && j.expect_good && supported_method(j.h.method)) { res.fail("C07.bad_but_match", "lib:check:false_negative", ctx + ": lha_reader_check reported failure although length and CRC match"); return false; }
		}
		return true;
	}
	// tool-level judgement: 'lha t' / 'lha x' lines, files and exit status against the library-level expectation
	bool judge_cli(const Plan &p, const Bytes &arch, int64_t trunc, const std::vector<MemberJudgement> &js, RunResult &res, const std::string &what) {
		Plan q = p;
		std::string cmd = p.gets("clicmd", "t");
		q.argv = {"lha", cmd, "/w/a.lzh"};
		std::vector<std::string> pats;
		if (!p.gets("clipat").empty()) { pats = split_ch(p.gets("clipat"), '\n'); for (auto &s : pats) q.argv.push_back(s); }
		auto is_selected = [&](const MemberJudgement &j) {
			if (pats.empty()) return true;
			for (auto &s : pats) if (s == "*" || s == j.h.full()) return true;
			return false;
		};
		q.seti("trunc", trunc);
		CliEnv env(q);
		g_sim.budget = g_sim.steps + 100000 + 64 * arch.size();
		CliResult r = env.run(q, arch);
		if (r.budget) { res.fail("C07.budget", "budget:cli", what + ": the tool did not finish within the step budget"); return false; }
		bool extract = cmd[0] == 'x' || cmd[0] == 'e';
		int quiet = 0;
		{ size_t q = cmd.find('q'); if (q != std::string::npos) quiet = (q + 1 < cmd.size() && cmd[q + 1] >= '0' && cmd[q + 1] <= '9') ? cmd[q + 1] - '0' : 2; }
		// expected per-member outcome lines, in order
		std::vector<int> exp;
		bool any_bad = false;
		std::vector<size_t> exp_member;
		for (size_t ji = 0; ji < js.size(); ++ji) {
			const MemberJudgement &j = js[ji];
			if (j.h.method == "-lhd-" || j.h.os == 'm') continue;
			if (!is_selected(j)) continue;
			if (!j.expect_good) any_bad = true;
			// a member whose method has no decoder never starts decoding: the tool prints no outcome line for it
			if (!supported_method(j.h.method)) continue;
			exp.push_back(j.expect_good ? 1 : 0);
			exp_member.push_back(ji);
		}
		// scan stdout for outcome words
		std::vector<int> got;
		const char *good_w = extract ? "\t- Melted" : "\t- Tested";
		const char *bad_w = extract ? "\t- Failure" : "\t- CRC error";
		size_t pos = 0;
		while (pos < r.out.size()) {
			size_t a = r.out.find(good_w, pos), b = r.out.find(bad_w, pos);
			if (a == std::string::npos && b == std::string::npos) break;
			if (a < b) { got.push_back(1); pos = a + 4; } else { got.push_back(0); pos = b + 4; }
		}
		std::string ctx = what + " 'lha " + cmd + "'";
		if (quiet < 2) {
			// a line is printed for every member whose decoding started; a good line must never stand for a bad member
			size_t gi = 0;
			for (size_t i = 0; i < exp.size() && gi < got.size(); ++i, ++gi) {
				if (got[gi] == 1 && exp[i] == 0) { res.fail("C07.good_but_mismatch", std::string("cli:line:") + (extract ? "x" : "t"), ctx + strf(": member %zu reported '%s' but its bytes do not match the recorded length/CRC\n%s", i, good_w + 3, printable(r.out).c_str())); return false; }
				if (!extract && got[gi] == 0 && exp[i] == 1) { res.fail("C07.bad_but_match", "cli:line:false_negative", ctx + strf(": member %zu reported '%s' although its bytes match", i, bad_w + 3)); return false; }
			}
		}
		if (any_bad && r.status == 0 && !r.exited) { res.fail("C07.exit_status", std::string("cli:exit:") + (extract ? "x" : "t"), ctx + ": exit status 0 although a selected member is bad\n" + printable(r.out)); return false; }
		if (!extract && !any_bad && (r.status != 0 || r.exited)) {
			bool all_supported = true;
			for (auto &j : js) if (j.h.method != "-lhd-" && is_selected(j) && !supported_method(j.h.method)) all_supported = false;
			if (all_supported) { res.fail("C07.exit_status", "cli:exit:false_negative", ctx + strf(": exit status %d although every member matches", r.status)); return false; }
		}
		if (extract) {
			// a file reported Melted must hold exactly the matching bytes
			for (auto &j : js) {
				if (j.h.method == "-lhd-" || j.h.os == 'm' || !j.expect_good) continue;
				std::string rel = j.h.full();
				while (!rel.empty() && rel[0] == '/') rel.erase(0, 1);
				int ino = env.fs.lookup("/w/x/y/root/" + rel, false);
				if (ino >= 0 && env.fs.nodes[ino].type == 'f' && env.fs.nodes[ino].data != j.out) {
					res.fail("C07.extracted_bytes", "cli:bytes", ctx + ": extracted file " + rel + " differs from the bytes the member yields");
					return false;
				}
			}
		}
		size_t bad;
		if (!c18_output_ok(r.out + r.err, &bad)) { res.fail("C18.printable", "printable:c07", ctx + ": non-printable byte on the terminal"); return false; }
		return true;
	}
	// the tool extracts everything while the output medium fails from byte n on
	bool write_fault_eval(const Plan &p, const Bytes &arch, const std::vector<MemberJudgement> &js, int64_t n, RunResult &res) {
		Plan q = p;
		std::string cmd = p.gets("clicmd", "xf");
		q.argv = {"lha", cmd, "/w/a.lzh"};
		q.seti("write_fail_at", n);
		CliEnv env(q);
		g_sim.budget = g_sim.steps + 100000 + 64 * arch.size();
		sim_watchdog_kick();
		CliResult r = env.run(q, arch);
		if (r.budget) { res.fail("C07.budget", "budget:cli", "the tool did not finish within the step budget"); return false; }
		std::string ctx = strf("'lha %s' with the output medium failing (errno %d) %s byte %lld%s, output buffering %d", cmd.c_str(), (int) p.geti("write_errno", 28), p.geti("write_once", 0) ? "once, at" : "from", (long long) n, p.geti("write_once", 0) ? "" : " on", (int) p.geti("outbuf", 0));
		// which members were reported Melted?
		std::vector<int> got;
		size_t pos = 0;
		while (pos < r.out.size()) {
			size_t a1 = r.out.find("\t- Melted", pos), b1 = r.out.find("\t- Failure", pos);
			if (a1 == std::string::npos && b1 == std::string::npos) break;
			if (a1 < b1) { got.push_back(1); pos = a1 + 4; } else { got.push_back(0); pos = b1 + 4; }
		}
		size_t gi = 0;
		bool any_short = false;
		for (auto &j : js) {
			if (j.h.method == "-lhd-" || j.h.os == 'm') continue;
			std::string rel = j.h.full();
			while (!rel.empty() && rel[0] == '/') rel.erase(0, 1);
			int ino = env.fs.lookup("/w/x/y/root/" + rel, false);
			bool file_ok = ino >= 0 && env.fs.nodes[ino].type == 'f' && env.fs.nodes[ino].data == j.out;
			bool complete = file_ok && j.expect_good;
			if (!complete) any_short = true;
			if (gi < got.size()) {
				if (got[gi] == 1 && !complete) {
					res.fail("C07.good_but_mismatch", "cli:write_fault:line", ctx + ": member " + printable(rel) + strf(" was reported 'Melted' but the file holds %zu of %zu bytes", ino >= 0 ? env.fs.nodes[ino].data.size() : (size_t) 0, j.out.size()));
					return false;
				}
				++gi;
			}
		}
		if (any_short && r.status == 0 && !r.exited) {
			res.fail("C07.exit_status", "cli:write_fault:exit", ctx + ": exit status 0 although an extracted file is incomplete");
			return false;
		}
		return true;
	}
	// several decode operations on the same entry through the library
	bool api_sequence_eval(const Plan &p, const Bytes &arch, const std::vector<MemberJudgement> &js, const char *const seq[3], RunResult &res) {
		CliEnv env(p);   // filesystem only
		g_sim.fs = &env.fs;
		Task t;
		t.kind = "FILE_SEEK";
		t.dir = "/w/x/y/root";
		for (size_t i = 0; i < js.size() + 1; ++i) {
			Op n; n.kind = "next"; t.ops.push_back(n);
			for (int k = 0; k < 3 && seq[k][0]; ++k) { Op o; o.kind = seq[k]; o.arg = !strcmp(seq[k], "read") ? 7 : 0; t.ops.push_back(o); }
		}
		DriveOpts o;
		o.stop_at_null = true;
		o.budget = 50000 + 32 * arch.size();
		DriveOut d = drive_reader(t, arch, o);
		g_sim.fs = nullptr;
		std::string what = std::string("sequence ") + seq[0] + "," + seq[1] + (seq[2][0] ? std::string(",") + seq[2] : "");
		if (d.budget) { res.fail("C07.budget", "budget:seq", what + ": a call did not return"); return false; }
		int mi = -1;
		for (auto &ob : d.obs) {
			if (ob.kind == "next") { ++mi; continue; }
			if (mi < 0 || (size_t) mi >= js.size()) continue;
			const MemberJudgement &j = js[mi];
			if (j.h.method == "-lhd-" || j.h.os == 'm') continue;
			if (ob.kind == "check" && ob.result && !j.expect_good) { res.fail("C07.good_but_mismatch", "lib:seq:check", what + strf(": member %d: check reported success for bytes that do not match", mi)); return false; }
			if (ob.kind == "extract" && ob.result) {
				bool file_ok = ob.post_type == 'f' && ob.post_data == j.out && j.expect_good;
				if (!file_ok) { res.fail("C07.good_but_mismatch", "lib:seq:extract", what + strf(": member %d: extract reported success but the file holds %zu bytes, the member's %s bytes are %zu", mi, ob.post_data.size(), j.expect_good ? "matching" : "non-matching", j.out.size())); return false; }
			}
		}
		return true;
	}
	RunResult execute(const Plan &p, Plan *narrowed) override {
		begin_run(p);
		RunResult res;
		BuiltArchive a = build_archive(p);
		uint64_t evals = 0, n_good = 0, n_bad = 0;
		std::vector<MemberJudgement> js;
		bool budget = false;
		int ki = (int)(p.run % 5);
		auto tally = [&]() { for (auto &j : js) if (j.h.method != "-lhd-") (j.expect_good ? n_good : n_bad)++; };
		int64_t must_be_bad = -1;
		auto narrow = [&](int64_t trunc, const Patch *q) {
			if (!narrowed || res.ok) return;
			*narrowed = p;
			narrowed->scenario = "single";
			narrowed->seti("trunc", trunc);
			narrowed->seti("must_be_bad", must_be_bad);
			if (q) narrowed->patches.push_back(*q);
		};
		if (p.scenario == "single_write_fault") {
			if (judge_lib(p, a.bytes, -1, ki, js, res, "replay", budget)) write_fault_eval(p, a.bytes, js, p.geti("write_fail_at", 0), res);
			res.nontrivial = true;
			res.trace = finish_trace();
			return res;
		}
		if (p.scenario == "single") {
			int64_t tr = p.geti("trunc", -1);
			if (judge_lib(p, a.bytes, tr, ki, js, res, "replay", budget)) judge_cli(p, a.bytes, tr, js, res, "replay");
			int64_t mb = p.geti("must_be_bad", -1);
			if (res.ok && mb >= 0 && (size_t) mb < js.size() && js[mb].verdict)
				res.fail(tr >= 0 ? "C07.truncation_undetected" : "C07.burst_undetected", tr >= 0 ? "trunc:stored" : "burst:stored", strf("stored member %lld lost or changed data but was reported good", (long long) mb));
			res.nontrivial = true;
			res.trace = finish_trace();
			return res;
		}
		if (p.scenario == "write_fault" || (p.scenario == "single" && false)) {
			// F-WRITE: the output medium refuses data from byte n on, for every n up to the total size of the selected
			// members (+1). A member may fail, but 'Melted' / exit status 0 must not stand for a file that lacks bytes.
			if (!judge_lib(p, a.bytes, -1, ki, js, res, p.scenario, budget)) { narrow(-1, nullptr); goto done; }
			tally();
			size_t total = 0;
			for (auto &j : js) if (j.h.method != "-lhd-") total += j.out.size();
			size_t step = total > 600 ? total / 600 + 1 : 1;
			for (size_t n = 0; n <= total && res.ok; n += step) {
				++evals;
				if (!write_fault_eval(p, a.bytes, js, (int64_t) n, res)) {
					if (narrowed) { *narrowed = p; narrowed->scenario = "single_write_fault"; narrowed->seti("write_fail_at", (int64_t) n); }
				}
			}
			count("fault.F-WRITE", evals);
			goto done;
		}
		if (p.scenario == "api_sequence") {
			// several decode operations on one entry (check then extract, read then extract, ...): whatever they return,
			// a success must stand for bytes that match the header
			if (!judge_lib(p, a.bytes, -1, ki, js, res, p.scenario, budget)) { narrow(-1, nullptr); goto done; }
			tally();
			static const char *seqs[][3] = {{"check", "extract", ""}, {"read", "extract", ""}, {"read", "check", "extract"}, {"extract", "extract", ""},
			                                {"check", "check", ""}, {"extract", "check", ""}, {"read", "check", ""}};
			for (auto &sq : seqs) {
				++evals;
				if (!api_sequence_eval(p, a.bytes, js, sq, res)) break;
			}
			goto done;
		}
		// the archive as generated (families c and d carry their fault in the plan)
		++evals;
		if (judge_lib(p, a.bytes, -1, ki, js, res, p.scenario, budget)) { tally(); judge_cli(p, a.bytes, -1, js, res, p.scenario); ++evals; }
		narrow(-1, nullptr);
		if (res.ok && p.scenario == "truncate") {
			size_t L = a.bytes.size(), stride = L > 1200 ? (L + 1199) / 1200 : 1;
			for (size_t off = 0; off < L && res.ok; off += stride) {
				++evals;
				std::string what = strf("truncated at %zu of %zu", off, L);
				if (!judge_lib(p, a.bytes, (int64_t) off, ki++, js, res, what, budget)) { narrow((int64_t) off, nullptr); break; }
				tally();
				// consequence: a cut inside a stored member's data makes that member bad
				for (size_t i = 0; i < js.size() && i < a.layout.size(); ++i) {
					const Member &m = p.members[i];
					bool stored = m.method == "-lh0-" || m.method == "-lz4-" || m.method == "-pm0-";
					size_t ds = a.layout[i].start + a.layout[i].hdr_len, de = ds + a.layout[i].data_len;
					if (stored && m.kind == 'f' && m.crc < 0 && m.orig < 0 && off >= ds && off < de && js[i].verdict) {
						res.fail("C07.truncation_undetected", "trunc:stored", what + strf(": stored member %zu lost data but was reported good", i));
						must_be_bad = (int64_t) i;
						narrow((int64_t) off, nullptr);
					}
				}
				if (res.ok && (off % 7) == 0) { ++evals; if (!judge_cli(p, a.bytes, (int64_t) off, js, res, what)) narrow((int64_t) off, nullptr); }
			}
			count("fault.S-EOF", evals);
		}
		if (res.ok && p.scenario == "burst") {
			Rng brng(p.seed, 707, p.run);
			for (size_t i = 0; i < a.layout.size() && res.ok; ++i) {
				const Member &m = p.members[i];
				if (m.kind != 'f' || !(m.method == "-lh0-" || m.method == "-lz4-" || m.method == "-pm0-")) continue;
				size_t ds = a.layout[i].hdr_len, dl = a.layout[i].data_len;
				for (size_t bit = 0; bit < dl * 8 && res.ok; ++bit) {
					for (int len = 1; len <= 16 && res.ok; ++len) {
						if (bit + (size_t) len > dl * 8) break;
						Patch q;
						q.member = (int) i;
						q.off = (uint32_t)(ds + bit / 8);
						q.op = 'x';
						int start = (int)(bit % 8);
						q.val.assign((size_t)(start + len + 7) / 8, 0);
						for (int b = 0; b < len; ++b) {
							bool flip = b == 0 || b == len - 1 || brng.chance(1, 2);
							// bit order of the data stream as CRC-16/ARC sees it: least significant bit of each byte first
							if (flip) q.val[(size_t)(start + b) / 8] |= (uint8_t)(1u << ((start + b) % 8));
						}
						Bytes w = a.bytes;
						for (size_t k = 0; k < q.val.size(); ++k) w[a.layout[i].start + q.off + k] ^= q.val[k];
						++evals;
						std::string what = strf("burst of %d bits at bit %zu of stored member %zu", len, bit, i);
						if (!judge_lib(p, w, -1, ki++, js, res, what, budget)) { narrow(-1, &q); break; }
						tally();
						if (i < js.size() && js[i].verdict) { res.fail("C07.burst_undetected", "burst:stored", what + ": reported good"); must_be_bad = (int64_t) i; narrow(-1, &q); break; }
						if ((bit + (size_t) len) % 61 == 0) { ++evals; if (!judge_cli(p, w, -1, js, res, what)) { narrow(-1, &q); break; } }
					}
				}
			}
			count("fault.D-BURST", evals);
		}
	done:
		if (p.scenario == "rewrite") count("fault.D-FIELD");
		if (p.scenario == "damage") count("fault.D-BYTE", p.patches.size());
		g_sim.counters["evals"] = evals;
		count("kind.family." + p.scenario);
		if (p.gets("many_bad") == "1") count("kind.hundreds_of_failing_members");
		if (p.gets("empty_members") == "1") count("kind.members_of_length_zero");
		if (!p.gets("clipat").empty()) count(p.gets("clipat") == "*" ? "kind.pattern.star" : "kind.pattern.names");
		count("kind.cli." + p.gets("clicmd"));
		count("probe.members_judged_good", n_good);
		count("probe.members_judged_bad", n_bad);
		res.ops = evals;
		res.nontrivial = n_good > 0 && n_bad > 0;
		res.trace = finish_trace();
		return res;
	}
};
REGISTER_SCENARIO(C07);
