#include "util.h"
#include <cstdarg>

std::string hex_encode(const uint8_t *p, size_t n) {
	static const char *d = "0123456789abcdef";
	std::string s;
	s.reserve(n * 2);
	for (size_t i = 0; i < n; ++i) { s.push_back(d[p[i] >> 4]); s.push_back(d[p[i] & 15]); }
	return s;
}

static int hv(char c) {
	if (c >= '0' && c <= '9') return c - '0';
	if (c >= 'a' && c <= 'f') return c - 'a' + 10;
	if (c >= 'A' && c <= 'F') return c - 'A' + 10;
	return -1;
}

bool hex_decode(const std::string &s, Bytes &out) {
	out.clear();
	if (s == "-") return true;   // explicit empty
	if (s.size() % 2) return false;
	out.reserve(s.size() / 2);
	for (size_t i = 0; i < s.size(); i += 2) {
		int a = hv(s[i]), b = hv(s[i + 1]);
		if (a < 0 || b < 0) return false;
		out.push_back((uint8_t)(a * 16 + b));
	}
	return true;
}

Bytes hex_bytes(const std::string &s) { Bytes b; hex_decode(s, b); return b; }
std::string hex_str(const std::string &s) { return to_str(hex_bytes(s)); }

std::string printable(const std::string &s) {
	std::string r;
	for (unsigned char c : s) {
		if (c >= 0x20 && c < 0x7f && c != '\\') r.push_back((char) c);
		else r += strf("\\x%02x", c);
	}
	return r;
}

std::vector<std::string> split_ws(const std::string &s) {
	std::vector<std::string> v;
	size_t i = 0;
	while (i < s.size()) {
		while (i < s.size() && (s[i] == ' ' || s[i] == '\t')) ++i;
		size_t j = i;
		while (j < s.size() && s[j] != ' ' && s[j] != '\t') ++j;
		if (j > i) v.push_back(s.substr(i, j - i));
		i = j;
	}
	return v;
}

std::vector<std::string> split_ch(const std::string &s, char c) {
	std::vector<std::string> v;
	size_t i = 0;
	for (;;) {
		size_t j = s.find(c, i);
		if (j == std::string::npos) { v.push_back(s.substr(i)); break; }
		v.push_back(s.substr(i, j - i));
		i = j + 1;
	}
	return v;
}

std::string json_escape(const std::string &s) {
	std::string r;
	for (unsigned char c : s) {
		if (c == '"') r += "\\\"";
		else if (c == '\\') r += "\\\\";
		else if (c == '\n') r += "\\n";
		else if (c < 0x20 || c >= 0x7f) r += strf("\\u%04x", c);
		else r.push_back((char) c);
	}
	return r;
}

std::string strf(const char *fmt, ...) {
	char buf[2048];
	va_list ap;
	va_start(ap, fmt);
	int n = vsnprintf(buf, sizeof buf, fmt, ap);
	va_end(ap);
	if (n < 0) return "";
	if ((size_t) n < sizeof buf) return std::string(buf, n);
	std::string s(n + 1, '\0');
	va_start(ap, fmt);
	vsnprintf(&s[0], n + 1, fmt, ap);
	va_end(ap);
	s.resize(n);
	return s;
}
