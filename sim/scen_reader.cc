// Reader-level scenarios: C15 (reference reader model; several readers under
// a seeded interleaving) and C20 (allocation/handle ledger under abandonment
// at every prefix and failure of every allocation).
#include "driver.h"
#include "gen.h"
#include <algorithm>

static const char *KINDS6[] = {"FILE_SEEK", "FILE_PIPE", "FILE_HALFSEEK", "CB_SKIP", "CB_SKIP+", "CB_NOSKIP"};

static void set_kind(Task &t, const std::string &k) {
	t.kind = k;
	t.skippast = 0;
	if (k == "CB_SKIP+") { t.kind = "CB_SKIP"; t.skippast = 1; }
}

static bool dangerous_target(const std::string &tg) {
	if (!tg.empty() && tg[0] == '/') return true;
	for (auto &c : split_ch(tg, '/')) if (c == "..") return true;
	return false;
}

static void setup_fs(SimFS &fs, const Plan &p, Rng *clockrng) {
	fs.euid = (int) p.geti("euid", 0);
	fs.egid = fs.euid;
	fs.umask_ = (int) p.geti("umask", 022);
	fs.rng = clockrng;
	fs.add_dir("/w", 0755, fs.euid, fs.egid, 1000000000);
	for (size_t t = 0; t < std::max<size_t>(1, p.tasks.size()); ++t)
		fs.add_dir("/w/t" + std::to_string(t), 0755, fs.euid, fs.egid, 1000000000);
	// a reader that opens its archive by name (C15): one file per reader, served by that reader's own source
	for (size_t t = 0; t < p.tasks.size(); ++t)
		if (p.tasks[t].kind == "BY_NAME" && p.property == "C15") fs.add_file("/w/arc" + std::to_string(t) + ".lzh", 0644, 0, 0, 1000000000, Bytes());
	for (auto &e : p.fs) {
		if (e.type == 'd') fs.add_dir(e.path, e.mode, e.uid, e.gid, e.mtime);
		else if (e.type == 'f') fs.add_file(e.path, e.mode, e.uid, e.gid, e.mtime, e.data);
		else fs.add_symlink(e.path, e.target, e.uid, e.gid, e.mtime);
	}
	fs.mark_preexisting();
	int err;
	fs.sys_chdir("/w/t0", err);
	// F-SYSCALL: call:n:errno[,...]
	std::string ff = p.gets("fsfaults");
	if (!ff.empty())
		for (auto &f : split_ch(ff, ',')) {
			auto w = split_ch(f, ':');
			if (w.size() == 3) fs.faults[{w[0], atoi(w[1].c_str())}] = atoi(w[2].c_str());
		}
	fs.counters = &g_sim.counters;
	fs.log.clear();
}

// the filesystem refuses something during extraction: one system call fails once (F-SYSCALL), or the place an entry
// wants is taken by an object of another kind (F-PERM family: the refusal is the filesystem's own)
static void gen_fs_refusals(Rng &rng, Plan &p, const std::string &dir) {
	if (rng.chance(1, 4)) {
		static const char *calls[] = {"mkdir", "open", "unlink", "symlink", "chmod", "chown", "fchmod", "fchown", "utime", "fdopen", "mkdir", "open"};
		static const int errs[] = {EACCES, ENOSPC, EIO, EPERM, ENOENT, EEXIST, EROFS, ENOMEM, ELOOP, ENAMETOOLONG, EINTR, EMFILE, ENOTDIR, EISDIR};
		p.sets("fsfaults", strf("%s:%d:%d", calls[rng.below(12)], (int) rng.below(rng.chance(1, 2) ? 2 : 6), errs[rng.below(14)]));
	}
	if (rng.chance(1, 4) && !p.members.empty()) {
		const Member &m = p.members[rng.below(p.members.size())];
		std::string rel = m.gpath + m.gname;
		while (!rel.empty() && rel.back() == '/') rel.pop_back();
		if (!rel.empty() && rel.find('\0') == std::string::npos) {
			FsEnt e;
			e.path = dir + "/" + rel;
			e.type = m.kind == 'd' ? 'f' : 'd';   // a file where a directory is wanted, a directory where a file or link is wanted
			e.mode = e.type == 'd' ? 0755 : 0644;
			e.data = to_bytes("in the way");
			e.mtime = 1000000000;
			p.fs.push_back(e);
		}
	}
}

// ---------------------------------------------------------------- reference reader model

struct ModelVerdict { bool ok = true; std::string clause, detail; size_t at = 0; int represented = 0; int touched = 0; };

static ModelVerdict model_check(const Canon &c, const Task &t, const DriveOut &d) {
	ModelVerdict mv;
	auto bad = [&](size_t i, const char *clause, const std::string &detail) {
		if (!mv.ok) return;
		mv.ok = false; mv.clause = clause; mv.at = i;
		mv.detail = strf("op %zu (%s): %s", i, i < d.obs.size() ? d.obs[i].kind.c_str() : "?", detail.c_str());
	};
	enum { START, NORMAL, FAKE, DEFERRED, END } cur = START;
	long idx = -1;                 // index into H of the current NORMAL entry
	std::vector<size_t> pending;   // H indices of directories created and not yet re-presented
	std::vector<size_t> deferred;  // H indices of dangerous links extracted and not yet re-presented
	size_t readpos = 0;
	size_t curfake = 0;
	// an injected skip failure (S-SKIPFAIL) may end the archive early - once; nothing else may change
	bool may_end_early = t.skipfail >= 0 && t.kind == "CB_SKIP";
	size_t limit = c.H.size();
	auto plen = [&](size_t hi) { return c.H[hi].path.size() + c.H[hi].name.size(); };
	auto outside = [&](const HeaderObs &E, const HeaderObs &dir) {
		if (!E.has_path) return true;
		return E.path.compare(0, dir.path.size(), dir.path) != 0;
	};
	for (size_t i = 0; i < d.obs.size() && mv.ok; ++i) {
		const Obs &o = d.obs[i];
		if (o.kind == "next") {
			if (cur == END) {
				if (!o.hdr.null) bad(i, "C15.end_sticky", "a header was returned after the end had been reported: " + o.hdr.str());
				continue;
			}
			if (cur == START || cur == NORMAL) { ++idx; readpos = 0; }
			if (may_end_early && idx < (long) limit) {
				// is the observation what an archive that goes on would give? (the member standing here, or a directory
				// that is due before it); if not, the only acceptable explanation is that the archive ended at this point
				bool consistent = !o.hdr.null && !o.result && o.hdr == c.H[idx];
				if (!o.hdr.null && o.result && t.policy == LHA_READER_DIR_END_OF_DIR)
					for (size_t k : pending) if (o.hdr == c.H[k] && outside(c.H[idx], c.H[k])) consistent = true;
				if (!consistent) { limit = (size_t) idx; may_end_early = false; }
			}
			bool eof = idx >= (long) limit;
			// which pending directories are due now?
			std::vector<size_t> due;
			for (size_t k = 0; k < pending.size(); ++k) {
				const HeaderObs &dir = c.H[pending[k]];
				if (eof) due.push_back(k);
				else if (t.policy == LHA_READER_DIR_END_OF_DIR && outside(c.H[idx], dir)) due.push_back(k);
			}
			// under END_OF_DIR the directories form a stack: only those above (and including) the lowest due one
			// can be due; a non-due directory above a due one would mean the archive is not directory-contiguous;
			// any due one may come first (order inside a due point is not part of the interface)
			if (!due.empty()) {
				bool matched = false;
				if (!o.hdr.null)
					for (size_t k : due)
						if (o.hdr == c.H[pending[k]]) {
							curfake = pending[k];
							pending.erase(pending.begin() + (long) k);
							matched = true;
							break;
						}
				if (!matched) {
					bad(i, "C15.dir_represent", strf("%zu extracted director%s due for re-presentation here (policy %d) but next returned %s",
					                                due.size(), due.size() == 1 ? "y is" : "ies are", t.policy, o.hdr.str().c_str()));
					continue;
				}
				if (!o.result) bad(i, "C15.fake_flag", "re-presented directory not flagged as fake");
				cur = FAKE;
				mv.represented++;
			} else if (!eof) {
				if (o.hdr.null) { bad(i, "C15.headers", strf("end reported but member %ld of %zu is next: %s", idx, c.H.size(), c.H[idx].str().c_str())); continue; }
				if (!(o.hdr == c.H[idx])) { bad(i, "C15.headers", "expected " + c.H[idx].str() + " got " + o.hdr.str()); continue; }
				if (o.result) bad(i, "C15.fake_flag", "ordinary entry flagged as fake");
				cur = NORMAL;
				mv.touched++;
			} else if (!deferred.empty()) {
				size_t maxlen = 0;
				for (size_t k : deferred) maxlen = std::max(maxlen, plen(k));
				bool matched = false;
				if (!o.hdr.null)
					for (size_t k = 0; k < deferred.size(); ++k)
						if (plen(deferred[k]) == maxlen && o.hdr == c.H[deferred[k]]) {
							curfake = deferred[k];
							deferred.erase(deferred.begin() + (long) k);
							matched = true;
							break;
						}
				if (!matched) { bad(i, "C15.deferred_order", strf("%zu deferred symlink(s) remain (longest path %zu) but next returned %s", deferred.size(), maxlen, o.hdr.str().c_str())); continue; }
				if (!o.result) bad(i, "C15.fake_flag", "deferred symlink not flagged as fake");
				cur = DEFERRED;
				mv.represented++;
			} else {
				if (!o.hdr.null) { bad(i, "C15.headers", "end of archive expected, got " + o.hdr.str()); continue; }
				cur = END;
			}
		} else if (o.kind == "isfake") {
			bool exp = cur == FAKE || cur == DEFERRED;
			if ((o.result != 0) != exp) bad(i, "C15.fake_flag", strf("current_is_fake returned %d, expected %d", o.result, (int) exp));
		} else if (o.kind == "read" || o.kind == "readall") {
			if (o.result < 0) { bad(i, "C15.read_prefix", "read returned more than was asked for"); continue; }
			if (cur == NORMAL) {
				const Bytes &b = c.B[idx];
				size_t remaining = b.size() - std::min(readpos, b.size());
				size_t want = o.kind == "readall" ? remaining : std::min(o.asked, remaining);
				if (o.data.size() != want || (want && memcmp(o.data.data(), b.data() + readpos, want) != 0))
					bad(i, "C15.read_prefix", strf("member %ld: read(%zu) at offset %zu returned %zu bytes, the member's bytes from there are %zu long%s",
					                              idx, o.asked, readpos, o.data.size(), want,
					                              o.data.size() == want ? " and differ" : ""));
				readpos += o.data.size();
			} else if (!o.data.empty()) bad(i, "C15.read_prefix", "read returned data although no ordinary entry is current");
		} else if (o.kind == "check") {
			int exp = cur == NORMAL ? c.V[idx] : 0;
			if ((o.result != 0) != (exp != 0)) bad(i, "C15.verdict", strf("check returned %d, canonical verdict for this entry is %d", o.result, exp));
		} else if (o.kind == "extract") {
			if (!o.result && o.fs_errors > 0) count("probe.extract_refused_by_filesystem");
			if (cur == START || cur == END) {
				if (o.result) bad(i, "C15.verdict", "extract succeeded with no current entry");
			} else if (cur == FAKE) {
				if (!o.result && o.fs_errors == 0) bad(i, "C15.verdict", "extract of a re-presented directory reported failure although the filesystem refused nothing");
			} else if (cur == DEFERRED) {
				const HeaderObs &h = c.H[curfake];
				if (o.result && !(o.post_type == 'l' && o.post_target == h.target))
					bad(i, "C15.extract_result", "deferred symlink reported created but is not there with its target");
			} else {
				const HeaderObs &h = c.H[idx];
				if (h.is_dir()) {
					if (o.result && o.post_type != 'd') bad(i, "C15.extract_result", "directory extract reported success but no directory exists");
					if (!o.result && o.post_type == 'd' && o.fs_errors == 0) bad(i, "C15.extract_result", "directory extract reported failure but the directory exists and the filesystem refused nothing");
					if (o.result && !o.existed_before && t.policy != LHA_READER_DIR_PLAIN) pending.push_back((size_t) idx);
				} else if (h.is_link()) {
					if (dangerous_target(h.target)) {
						if (o.result) {
							if (o.post_type != 'f') bad(i, "C15.extract_result", "dangerous symlink: no placeholder file was left");
							deferred.push_back((size_t) idx);
						}
					} else {
						if (o.result && !(o.post_type == 'l' && o.post_target == h.target))
							bad(i, "C15.extract_result", "symlink reported created but is not there with its target");
						if (!o.result && o.fs_errors == 0) bad(i, "C15.extract_result", "symlink extract failed although the filesystem refused nothing");
					}
				} else {
					if (o.result) {
						if (!c.V[idx]) bad(i, "C15.verdict", "extract reported success for a member whose canonical verdict is bad");
						else if (o.post_type != 'f' || o.post_data != c.B[idx])
							bad(i, "C15.extract_data", strf("extracted file differs from the member's bytes (%zu vs %zu bytes)", o.post_data.size(), c.B[idx].size()));
					} else if (c.V[idx] && o.fs_errors == 0)
						bad(i, "C15.verdict", "extract failed for a good member although the filesystem refused nothing");
				}
			}
		}
	}
	return mv;
}

// ---------------------------------------------------------------- C15

struct C15 : Scenario {
	const char *property() const override { return "C15"; }
	uint64_t total_runs(uint64_t, const std::string &tier) override { return tier == "quick" ? 60000 : 3000000; }
	const char *nontrivial_rule() const override {
		return "a run is one generated archive (2-8 entries: files of all methods, nested directories, safe and dangerous symlinks, "
		       "some with bad CRC), 1-3 readers each with its own stream kind, directory policy, SimFS directory and call history "
		       "(next/read(k)/readall/check/extract/is_fake, one decode operation and one extract per entry), and for several readers "
		       "a seeded schedule deciding who proceeds at every seam crossing; every observation is compared with the reference "
		       "reader model built from a canonical traversal. Non-trivial = at least 2 members touched and (at least 1 task switch "
		       "or at least 1 re-presented entry); distinct = distinct trace hash (includes the schedule)";
	}
	void describe(std::string &real, std::string &stub, std::string &assume) const override {
		real = "lib/lha_reader.c, lha_basic_reader.c, lha_input_stream.c, lha_file_header.c, decoders, lib/lha_arch_unix.c (unmodified)";
		stub = "archive sources, SimFS, baton scheduler (real threads, one runnable at a time, switch decisions at stream/allocator/filesystem/progress seams)";
		assume = "H, B, V of the model come from a canonical traversal by the same library; shared state touched only inside a seam-free stretch is invisible to the seeded interleaving (see the TSan side run)";
	}
	Plan generate(uint64_t seed, uint64_t run, const std::string &) override {
		Rng rng(seed, 15, run);
		Plan p;
		p.scenario = "reader_model";
		TreeOpts o;
		o.max_entries = 2 + (int) rng.below(7);
		o.max_payload = 1500;
		o.bad_crc_sometimes = true;
		o.hard_perms = false;
		o.explicit_dirs_only = rng.chance(1, 2);
		o.uniform_level = rng.chance(1, 2);
		o.abs_mix = rng.chance(1, 8);   // "/a/x" beside "a/": two spellings, two different paths as far as the reader is concerned
		gen_tree(rng, o, p.members);
		// directories that record nothing at all - no permissions, no owner, time stamp zero: they are re-presented all the same
		for (auto &m : p.members)
			if (m.kind == 'd' && m.gperms < 0 && rng.chance(1, 2)) {
				m.time = 0;
				m.ext.erase(std::remove_if(m.ext.begin(), m.ext.end(), [](const ExtHdr &e) { return e.type == 0x54 || e.type == 0x41 || e.type == 0x51; }), m.ext.end());
			}
		size_t nt = rng.chance(3, 5) ? 1 : (rng.chance(3, 4) ? 2 : 3);
		for (size_t k = 0; k < nt; ++k) {
			Task t;
			set_kind(t, KINDS6[rng.below(6)]);
			if (rng.chance(1, 7)) set_kind(t, "BY_NAME");   // lha_input_stream_from(path): the library opens (and buffers) the file itself
			t.policy = (int) rng.below(3);
			t.dir = "/w/t" + std::to_string(k);
			gen_history(rng, t, p.members.size(), true, 40);
			for (auto &op : t.ops) if (op.kind == "extract") op.arg = (nt == 1 && k == 0 && op.arg == 1) ? 1 : 0;
			if (t.kind == "CB_SKIP" && rng.chance(1, 5)) t.skipfail = (int64_t) rng.below(4);
			p.tasks.push_back(t);
		}
		// extraction that meets refusals: the caller carries on, and what the reader presents afterwards must still follow the model
		if (nt == 1) gen_fs_refusals(rng, p, "/w/t0");
		// the input ends (S-EOF) or starts failing (S-ERR, lasting or transient) at an arbitrary offset, for every reader alike:
		// what the archive yields up to there must still not depend on how the members before were treated, and the end is final
		if (rng.chance(1, 6)) {
			BuiltArchive a = build_archive(p);
			int64_t at = (int64_t) rng.below(a.bytes.size() + 1);
			// (a transient error is not used here: the library may or may not get over it, both are fine)
			int how = (int) rng.below(2);
			for (auto &t : p.tasks) {
				if (how == 0) t.trunc = at;
				else t.errat = at;
			}
		}
		if (rng.chance(1, 3)) p.seti("twice", 1);
		if (nt > 1) {
			p.seti("sched_seed", (int64_t) rng.below(1u << 30));
			p.seti("bias", (int64_t) rng.below(3));
		}
		// a whole second archive behind the end marker (drawn last: the plans are otherwise the ones they were): the end is
		// final for every reader, whatever it did with the members before - extracted links that were held back included
		if (rng.chance(1, 6)) p.seti("trailer", 1);
		return p;
	}
	RunResult execute(const Plan &p, Plan *) override {
		begin_run(p);
		RunResult res;
		BuiltArchive a = build_archive(p);
		if (p.geti("trailer", 0)) {
			if (a.bytes.empty() || a.bytes.back() != 0) a.bytes.push_back(0);
			Bytes again = a.bytes;
			append(a.bytes, again);
			count("kind.trailer_after_end_marker");
		}
		uint64_t budget = 8192 + 16 * a.bytes.size();
		// the reference of a reader is what the archive yields up to the point where that reader's input ends or fails
		auto cut_of = [&](const Task &t) -> int64_t {
			int64_t cut = -1;
			if (t.trunc >= 0) cut = t.trunc;
			if (t.errat >= 0 && !t.erronce && (cut < 0 || t.errat < cut)) cut = t.errat;
			if (cut >= (int64_t) a.bytes.size()) cut = -1;
			return cut;
		};
		std::map<int64_t, Canon> canons;
		for (auto &t : p.tasks) {
			int64_t cut = cut_of(t);
			if (canons.count(cut)) continue;
			Bytes upto = a.bytes;
			if (cut >= 0) { upto.resize((size_t) cut); count("kind.input_cut_short"); }
			canons[cut] = canonical(upto, budget);
			if (!canons[cut].ok) { res.fail("C15.canonical", "canonical", "canonical traversal did not complete"); res.trace = finish_trace(); return res; }
		}
		Rng clockrng(p.seed, 1500, p.run);
		SimFS fs;
		setup_fs(fs, p, &clockrng);
		g_sim.fs = &fs;
		std::vector<DriveOut> outs(p.tasks.size());
		DriveOpts o;
		o.budget = ~0ULL;
		g_sim.budget = g_sim.steps + budget * (p.tasks.size() + 1) + 100000;
		auto drive_k = [&](size_t k) {
			Task tk = p.tasks[k];
			DriveOpts ok = o;
			// by name: a regular file, or (odd reader index) a FIFO - the library's own FILE then cannot seek
			if (tk.kind == "BY_NAME") { tk.kind = (k & 1) ? "FILE_PIPE" : "FILE_SEEK"; ok.by_name = true; ok.by_name_path = "/w/arc" + std::to_string(k) + ".lzh"; }
			return drive_reader(tk, a.bytes, ok);
		};
		if (p.tasks.size() == 1) {
			outs[0] = drive_k(0);
		} else {
			Rng srng((uint64_t) p.geti("sched_seed"), 77, 0);
			int bias = (int) p.geti("bias", 1);
			size_t si = 0;
			auto decide = [&](const std::vector<int> &runnable) -> int {
				int curt = g_baton.current;
				bool cur_ok = std::find(runnable.begin(), runnable.end(), curt) != runnable.end();
				if (!p.sched.empty()) {
					if (si < p.sched.size()) {
						int want = p.sched[si++];
						if (std::find(runnable.begin(), runnable.end(), want) != runnable.end()) return want;
					}
					return cur_ok ? curt : runnable[0];
				}
				bool sw = bias == 2 ? true : bias == 1 ? srng.chance(1, 3) : srng.chance(1, 32);
				if (cur_ok && !sw) return curt;
				return runnable[srng.below(runnable.size())];
			};
			std::vector<std::function<void()>> bodies;
			for (size_t k = 0; k < p.tasks.size(); ++k)
				bodies.push_back([&, k]() { outs[k] = drive_k(k); });
			g_baton.run(bodies, decide);
			count("probe.task_switches", g_baton.switches);
			count("kind.multi_reader");
			Fnv sh;
			for (int dsn : g_baton.decisions) sh.u64((uint64_t) dsn);
			trace_u64(sh.h);
		}
		g_sim.fs = nullptr;
		// reader independence, directly: the same histories once more, one reader after the other on a fresh
		// filesystem, must observe exactly what they observed the first time (interleaved or not)
		if (p.geti("twice", 0)) {
			SimFS fs2;
			Rng clockrng2(p.seed, 1500, p.run);
			setup_fs(fs2, p, &clockrng2);
			g_sim.fs = &fs2;
			bool tr = g_sim.tracing;
			g_sim.tracing = false;
			for (size_t k = 0; k < p.tasks.size() && res.ok; ++k) {
				int err;
				fs2.sys_chdir("/w/t0", err);
				DriveOut d2 = drive_k(k);
				if (d2.budget || outs[k].budget) break;
				const DriveOut &d1 = outs[k];
				size_t n = std::min(d1.obs.size(), d2.obs.size());
				if (d1.obs.size() != d2.obs.size())
					res.fail("C15.reader_independence", "independence:count", strf("reader %zu made %zu observations when run with the others and %zu when run alone afterwards", k, d1.obs.size(), d2.obs.size()));
				for (size_t i = 0; i < n && res.ok; ++i) {
					const Obs &x = d1.obs[i], &y = d2.obs[i];
					bool same = x.kind == y.kind && x.hdr == y.hdr && x.data == y.data && x.result == y.result && x.post_type == y.post_type && x.post_data == y.post_data;
					if (!same)
						res.fail("C15.reader_independence", "independence:" + x.kind,
						         strf("reader %zu/%zu op %zu (%s): result differs between the first execution (%s) and a second, solitary execution of the same history",
						              k, p.tasks.size(), i, x.kind.c_str(), p.tasks.size() > 1 ? "interleaved with other readers" : "alone"));
				}
			}
			g_sim.tracing = tr;
			g_sim.fs = nullptr;
			count("probe.second_pass_compared");
		}
		int represented = 0, touched = 0;
		for (size_t k = 0; k < p.tasks.size() && res.ok; ++k) {
			if (outs[k].budget) { res.fail("C15.budget", "budget", strf("reader %zu: a call did not return within the step budget (%s)", k, outs[k].budget_api.c_str())); break; }
			if (outs[k].c11_bad) { res.fail("C11.invariant", "c11", outs[k].c11_why); break; }
			// (no allocation fails in these runs and the file is there: a source that cannot even be opened yields fewer members)
			if (outs[k].open_failed) { res.fail("C15.headers", "open_failed", strf("reader %zu/%zu (%s): the archive could not be opened although nothing failed", k, p.tasks.size(), p.tasks[k].kind.c_str())); break; }
			ModelVerdict mv = model_check(canons[cut_of(p.tasks[k])], p.tasks[k], outs[k]);
			represented += mv.represented;
			touched += mv.touched;
			if (!mv.ok) res.fail(mv.clause, mv.clause.substr(4) + (p.tasks.size() > 1 ? ":multi" : ""), strf("reader %zu/%zu (%s, policy %d): %s", k, p.tasks.size(), p.tasks[k].kind.c_str(), p.tasks[k].policy, mv.detail.c_str()));
		}
		uint64_t nops = 0;
		for (auto &t : p.tasks) nops += t.ops.size();
		res.ops = nops;
		res.nontrivial = touched >= 2 && (g_baton.switches > 1 || represented > 0);
		if (represented) count("probe.represented_entries", (uint64_t) represented);
		for (auto &t : p.tasks) { count("kind.stream." + t.kind); count(strf("kind.policy.%d", t.policy)); }
		res.trace = finish_trace();
		return res;
	}
	void extra_candidates(const Plan &p, std::vector<Plan> &out) override {
		// materialise the schedule so that switches can be removed one by one
		(void) p; (void) out;
	}
};
REGISTER_SCENARIO(C15);

// ---------------------------------------------------------------- C20

struct C20 : Scenario {
	const char *property() const override { return "C20"; }
	const char *level() const override { return "fault_enumeration"; }
	uint64_t total_runs(uint64_t, const std::string &tier) override { return tier == "quick" ? 2000 : 40000; }
	const char *nontrivial_rule() const override {
		return "a run is one (archive, call history, stream kind, directory policy) pair; for it the fault-free execution is recorded "
		       "(n operations, m library allocations) and then X-ABANDON(j) is executed for EVERY prefix j <= n, and for each j "
		       "A-FAIL(k) for EVERY k < m_j (each a separate evaluation on a fresh SimFS). Oracle: after lha_reader_free + "
		       "lha_input_stream_free the allocator ledger is empty and no stream/file handle is open; the call during which the "
		       "failing allocation was requested returns its failure value. Non-trivial = the run reached a re-presented entry or "
		       "an extraction; distinct = distinct trace hash of the fault-free execution";
	}
	void describe(std::string &real, std::string &stub, std::string &assume) const override {
		real = "whole library incl. lib/lha_arch_unix.c (unmodified)";
		stub = "allocator ledger on malloc/calloc/realloc/strdup/free (link-time wrappers), handle ledger on fopen/fdopen/open/close/fclose and stream callbacks, SimFS, archive sources incl. open-by-name";
		assume = "allocations made by libc itself on the library's behalf (stdio buffers) are not ledgered; exhaustive over j and k only for the sampled pairs";
	}
	Plan generate(uint64_t seed, uint64_t run, const std::string &) override {
		Rng rng(seed, 20, run);
		Plan p;
		p.scenario = "ledger";
		TreeOpts o;
		o.max_entries = 2 + (int) rng.below(6);
		o.max_payload = 400;
		o.full_payload_sometimes = false;
		o.hard_perms = false;
		o.mac = rng.chance(1, 4);
		o.bad_crc_sometimes = true;
		o.explicit_dirs_only = rng.chance(2, 3);
		if (rng.chance(1, 3)) o.methods = {"-lh0-", "-lh5-", "-lz5-", "-lh1-", "-pm2-"};
		gen_tree(rng, o, p.members);
		Task t;
		static const char *kinds[] = {"FILE_SEEK", "FILE_PIPE", "CB_SKIP", "CB_NOSKIP", "BY_NAME", "FILE_HALFSEEK"};
		set_kind(t, kinds[rng.below(6)]);
		t.policy = (int) rng.below(3);
		t.dir = "/w/t0";
		gen_history(rng, t, p.members.size(), true, 28);
		if (rng.chance(1, 3)) {
			// input ending at an arbitrary point (inside a header, inside data): failure paths must release everything too
			BuiltArchive a = build_archive(p);
			t.trunc = (int64_t) rng.below(a.bytes.size() + 1);
		} else if (rng.chance(1, 5)) {
			// a read error (as opposed to end of input) at an arbitrary point
			BuiltArchive a = build_archive(p);
			t.errat = (int64_t) rng.below(a.bytes.size() + 1);
		}
		p.tasks.push_back(t);
		// refusals by the filesystem during extraction: the failure paths release everything as well
		gen_fs_refusals(rng, p, "/w/t0");
		if (t.kind == "BY_NAME" && rng.chance(1, 4)) p.sets("byname", rng.chance(1, 2) ? "dir" : "missing");
		if (rng.chance(1, 8))
			for (auto &m : p.members)
				if (m.kind == 'l') {
					// the name of a symbolic-link entry cut off before its '|': the entry is refused (the archive ends there), and
					// what was put together while looking at it has to be released like everything else
					auto cut = [](Bytes &b) { for (size_t i = 0; i < b.size(); ++i) if (b[i] == '|') { b.resize(i); return true; } return false; };
					bool done = cut(m.inname);
					for (auto &e : m.ext) if (!done && e.type == 0x01) done = cut(e.data);
					if (done) { p.sets("broken_link", "1"); break; }
				}
		return p;
	}
	// one evaluation on a fresh filesystem
	DriveOut one(const Plan &p, const Bytes &arch, int64_t j, int64_t k, uint64_t *nallocs) {
		Rng clockrng(p.seed, 2000, p.run);
		SimFS fs;
		setup_fs(fs, p, &clockrng);
		g_sim.fs = &fs;
		Task t = p.tasks[0];
		DriveOpts o;
		o.ledger = true;
		o.abandon_after = j;
		o.fail_alloc = k;
		o.budget = 20000 + 40 * arch.size();
		if (t.kind == "BY_NAME") {
			t.kind = "FILE_SEEK";
			o.by_name = true;
			o.by_name_path = "/w/archive.lzh";
			// the name may also be a directory, or nothing at all: opening fails (or yields nothing), and nothing may stay behind
			std::string what = p.gets("byname", "file");
			if (what == "dir") fs.add_dir("/w/archive.lzh", 0755, 0, 0, 1000000000);
			else if (what == "file") g_sim.archive_ino = fs.add_file("/w/archive.lzh", 0644, 0, 0, 1000000000, Bytes());
			count("kind.by_name." + what);
		}
		g_sim.open_handles = 0;
		g_sim.peak_bytes = 0;
		DriveOut d = drive_reader(t, arch, o);
		if (nallocs) *nallocs = g_sim.nallocs;
		g_sim.fs = nullptr;
		g_sim.archive_src = nullptr;
		g_sim.archive_ino = -1;
		g_sim.fds.clear();
		g_sim.streams.clear();
		return d;
	}
	bool judge(const Plan &p, const DriveOut &d, int64_t j, int64_t k, RunResult &res, Plan *narrowed) {
		std::string ctx = strf("abandon after %lld ops%s", (long long) j, k >= 0 ? strf(", allocation #%lld fails", (long long) k).c_str() : "");
		auto narrow = [&]() {
			if (!narrowed) return;
			*narrowed = p;
			narrowed->scenario = "single";
			narrowed->seti("j", j);
			narrowed->seti("k", k);
		};
		if (d.budget) { res.fail("C20.budget", "budget", ctx + ": a call did not return within the step budget"); narrow(); return false; }
		if (d.leaked_blocks) { res.fail("C20.leak", d.leak_sig, ctx + ": " + d.leak_detail); narrow(); return false; }
		if (d.open_handles_after != 0) {
			res.fail("C20.handle", strf("handle:%s", p.tasks[0].kind.c_str()), ctx + strf(": %d stream/file handle(s) still open after free", d.open_handles_after));
			narrow();
			return false;
		}
		if (d.alloc_fail_misreported) {
			res.fail("C20.alloc_failure_reported", d.leak_sig, ctx + ": " + d.alloc_fail_detail);
			narrow();
			return false;
		}
		if (d.c11_bad) { res.fail("C11.invariant", "c11", d.c11_why); narrow(); return false; }
		return true;
	}
	RunResult execute(const Plan &p, Plan *narrowed) override {
		begin_run(p);
		RunResult res;
		BuiltArchive a = build_archive(p);
		if (p.tasks.empty()) return res;
		uint64_t evals = 0;
		if (p.scenario == "single") {
			DriveOut d = one(p, a.bytes, p.geti("j", -1), p.geti("k", -1), nullptr);
			judge(p, d, p.geti("j", -1), p.geti("k", -1), res, nullptr);
			res.nontrivial = true;
			res.trace = finish_trace();
			return res;
		}
		int64_t n = (int64_t) p.tasks[0].ops.size();
		uint64_t m = 0;
		DriveOut d0 = one(p, a.bytes, -1, -1, &m);
		++evals;
		uint64_t base_trace = finish_trace();
		bool interesting = false;
		for (auto &ob : d0.obs) if (ob.kind == "extract" || (ob.kind == "next" && ob.result)) interesting = true;
		judge(p, d0, -1, -1, res, narrowed);
		g_sim.tracing = false;
		uint64_t fired = 0;
		for (int64_t j = 0; j <= n && res.ok; ++j) {
			uint64_t mj = 0;
			DriveOut dj = one(p, a.bytes, j, -1, &mj);
			++evals;
			count("fault.X-ABANDON");
			if (!judge(p, dj, j, -1, res, narrowed)) break;
			// allocations of this prefix that were not already covered by the previous prefix
			for (uint64_t k = 0; k < mj && res.ok; ++k) {
				DriveOut dk = one(p, a.bytes, j, (int64_t) k, nullptr);
				++evals;
				++fired;
				if (!judge(p, dk, j, (int64_t) k, res, narrowed)) break;
			}
		}
		g_sim.tracing = true;
		g_sim.counters["evals"] = evals;
		g_sim.counters["fault.A-FAIL"] = fired;
		count("kind.stream." + p.tasks[0].kind);
		count(strf("kind.policy.%d", p.tasks[0].policy));
		count("probe.library_allocations_fault_free", m);
		res.ops = evals;
		res.nontrivial = interesting;
		res.trace = base_trace;
		return res;
	}
};
REGISTER_SCENARIO(C20);
