#include "framework.h"
#include <algorithm>

std::vector<Scenario *> &all_scenarios() {
	static std::vector<Scenario *> v;
	return v;
}
void register_scenario(Scenario *s) { all_scenarios().push_back(s); }
Scenario *find_scenario(const std::string &prop) {
	for (auto *s : all_scenarios()) if (prop == s->property()) return s;
	return nullptr;
}

void begin_run(const Plan &p) {
	g_sim.reset();
	sim_set_tz(p.gets("tz", "UTC"));
}

uint64_t finish_trace() { return g_sim.trace.h; }

bool c11_header_ok(const LHAFileHeader *h, std::string &why) {
	if (h->filename && strchr(h->filename, '/')) {
		why = "filename contains '/': " + printable(h->filename);
		return false;
	}
	if (h->path) {
		const char *p = h->path;
		if (*p == '/') ++p;
		const char *start = p;
		for (; *p; ++p) {
			if (*p == '/') {
				size_t n = (size_t)(p - start);
				if (n == 0 || (n == 1 && start[0] == '.') || (n == 2 && start[0] == '.' && start[1] == '.')) {
					why = "path has a bad component: " + printable(h->path);
					return false;
				}
				start = p + 1;
			}
		}
	}
	return true;
}

bool c18_output_ok(const std::string &out, size_t *badpos) {
	for (size_t i = 0; i < out.size(); ++i) {
		unsigned char c = (unsigned char) out[i];
		if (!((c >= 0x20 && c <= 0x7e) || c == '\n' || c == '\r' || c == '\t')) {
			if (badpos) *badpos = i;
			return false;
		}
	}
	return true;
}

// ------------------------------------------------------------------ shrinking

void generic_candidates(const Plan &p, std::vector<Plan> &out) {
	// drop members
	if (p.members.size() > 1)
		for (size_t i = 0; i < p.members.size(); ++i) {
			Plan c = p;
			c.members.erase(c.members.begin() + i);
			// patches that pointed at later members move down; those at the dropped one go
			std::vector<Patch> np;
			for (auto q : c.patches) {
				if (q.member == (int) i) continue;
				if (q.member > (int) i) q.member--;
				np.push_back(q);
			}
			c.patches = np;
			out.push_back(c);
		}
	for (size_t i = 0; i < p.patches.size(); ++i) {
		Plan c = p;
		c.patches.erase(c.patches.begin() + i);
		out.push_back(c);
	}
	if (p.tasks.size() > 1)
		for (size_t t = 0; t < p.tasks.size(); ++t) {
			Plan c = p;
			c.tasks.erase(c.tasks.begin() + t);
			c.sched.clear();
			out.push_back(c);
		}
	for (size_t t = 0; t < p.tasks.size(); ++t) {
		const Task &k = p.tasks[t];
		// drop a run of ops from the end first, then single ops
		if (k.ops.size() > 2) {
			Plan c = p;
			c.tasks[t].ops.resize(k.ops.size() / 2);
			out.push_back(c);
		}
		for (size_t i = k.ops.size(); i-- > 0;) {
			Plan c = p;
			c.tasks[t].ops.erase(c.tasks[t].ops.begin() + i);
			out.push_back(c);
		}
		if (k.kind != "FILE_SEEK") { Plan c = p; c.tasks[t].kind = "FILE_SEEK"; out.push_back(c); }
		if (k.trunc >= 0) { Plan c = p; c.tasks[t].trunc = -1; out.push_back(c); }
		if (k.errat >= 0) { Plan c = p; c.tasks[t].errat = -1; out.push_back(c); }
		if (k.skipfail >= 0) { Plan c = p; c.tasks[t].skipfail = -1; out.push_back(c); }
		if (k.policy != 1) { Plan c = p; c.tasks[t].policy = 1; out.push_back(c); }
		for (size_t i = 0; i < k.ops.size(); ++i)
			if (k.ops[i].kind == "read" && k.ops[i].arg > 1) {
				Plan c = p;
				c.tasks[t].ops[i].arg = k.ops[i].arg / 2;
				out.push_back(c);
			}
	}
	for (size_t i = 0; i < p.fs.size(); ++i) {
		Plan c = p;
		c.fs.erase(c.fs.begin() + i);
		out.push_back(c);
	}
	if (!p.prefix.empty()) {
		Plan c = p; c.prefix.clear(); out.push_back(c);
		Plan d = p; d.prefix.resize(p.prefix.size() / 2); out.push_back(d);
	}
	for (size_t i = 0; i < p.members.size(); ++i) {
		const Member &m = p.members[i];
		if (!m.payload.empty()) {
			int64_t cur = m.cut;
			const Payload *pl = find_payload(m.payload);
			if (cur < 0 && pl) cur = (int64_t) pl->plain.size();
			for (int64_t n : {(int64_t) 0, (int64_t) 1, cur / 2, cur - 1})
				if (n >= 0 && n < cur) { Plan c = p; c.members[i].cut = n; out.push_back(c); }
		}
		// dropping an extended header changes what the member says about itself; only for oracles that do not
		// compare with generator ground truth
		bool no_ground_truth = p.property == "C08" || p.property == "C13" || p.property == "C16" || p.property == "C11" || p.property == "C12" || p.property == "C20" || p.property == "C15";
		if (m.ext.size() > 0 && no_ground_truth)
			for (size_t e = 0; e < m.ext.size(); ++e) {
				Plan c = p;
				c.members[i].ext.erase(c.members[i].ext.begin() + e);
				out.push_back(c);
			}
	}
	if (p.argv.size() > 3)
		for (size_t i = p.argv.size(); i-- > 3;) {
			Plan c = p;
			c.argv.erase(c.argv.begin() + i);
			out.push_back(c);
		}
	if (!p.stdin_script.empty()) {
		Plan c = p; c.stdin_script.clear(); out.push_back(c);
		Plan d = p; d.stdin_script.resize(p.stdin_script.size() - 1); out.push_back(d);
	}
	if (p.reads.size() > 1) {
		{ Plan c = p; c.reads.resize(p.reads.size() / 2); out.push_back(c); }
		for (size_t i = p.reads.size(); i-- > 0;) {
			Plan c = p;
			c.reads.erase(c.reads.begin() + i);
			out.push_back(c);
		}
	}
	if (!p.sched.empty()) {
		Plan c = p; c.sched.clear(); c.cfg.erase("sched_seed"); out.push_back(c);
		// remove one decision at a time (fewer switches)
		for (size_t i = p.sched.size(); i-- > 1;)
			if (p.sched[i] != p.sched[i - 1]) {
				Plan d = p;
				d.sched[i] = d.sched[i - 1];
				out.push_back(d);
			}
	}
	if (!p.stream.empty() && p.stream.size() > 1) {
		Plan c = p; c.stream.resize(p.stream.size() / 2); out.push_back(c);
		Plan d = p; d.stream.resize(p.stream.size() - 1); out.push_back(d);
	}
}

Plan minimise(Scenario *s, const Plan &start, const Violation &v, int budget, int *execs) {
	Plan best = start;
	int used = 0;
	bool progress = true;
	while (progress && used < budget) {
		progress = false;
		std::vector<Plan> cands;
		generic_candidates(best, cands);
		s->extra_candidates(best, cands);
		for (auto &c : cands) {
			if (used >= budget) break;
			++used;
			Plan narrowed;
			RunResult r = s->execute(c, nullptr);
			if (!r.ok && r.v.clause == v.clause && r.v.sig == v.sig) {
				best = c;
				progress = true;
				break;
			}
		}
	}
	if (execs) *execs = used;
	return best;
}
