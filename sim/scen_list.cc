// CLI scenarios on the simulated terminal: C19 (list output against an
// independent renderer fed from generator ground truth; simulated clock,
// archive mtime, time zone, stream kind) and C18 (every byte the tool prints is
// printable ASCII).
#include "clienv.h"
#include "gen.h"
#include <cmath>

// ---------------------------------------------------------------- independent glob

static bool glob_match(const std::string &g, size_t gi, const std::string &s, size_t si) {
	while (gi < g.size()) {
		if (g[gi] == '*') {
			for (size_t k = si; k <= s.size(); ++k) if (glob_match(g, gi + 1, s, k)) return true;
			return false;
		}
		if (si >= s.size()) return false;
		if (g[gi] != '?' && g[gi] != s[si]) return false;
		++gi; ++si;
	}
	return si == s.size();
}

static bool selected(const Plan &p, const Member &m) {
	if (p.argv.size() <= 3) return true;
	std::string full = m.gpath + m.gname;
	for (size_t i = 3; i < p.argv.size(); ++i) if (glob_match(p.argv[i], 0, full, 0)) return true;
	return false;
}

// ---------------------------------------------------------------- independent list renderer (DESIGN appendix F)

static const char *os_name(int os) {
	switch (os) {
		case 'M': return "[MS-DOS]";
		case 'w': return "[Win9x]";
		case 'W': return "[WinNT]";
		case 'U': return "[Unix]";
		case '2': return "[OS/2]";
		case 'C': return "[CP/M]";
		case 'm': return "[Mac OS]";
		case 'J': return "[Java]";
		case 'F': return "[FLEX]";
		case 'R': return "[Runser]";
		case 'T': return "[TownsOS]";
		case '9': return "[OS-9]";
		case 'K': return "[OS-9/68K]";
		case '3': return "[OS-386]";
		case 'H': return "[Human68K]";
		case 'a': return "[Atari]";
		case 'A': return "[Amiga]";
		case ' ': return "[LHARK]";
		case 0: return "[generic]";
		default: return "[unknown]";
	}
}

struct Row {
	std::string perm, ids, packed, size, ratio_f, ratio_d, mcrc, stamp, full, lv, name, wide;
};

static std::string stamp_of(uint32_t t, int64_t now, int tzoff) {
	if (t == 0) return std::string(12, ' ');
	static const char *mon[] = {"Jan", "Feb", "Mar", "Apr", "May", "Jun", "Jul", "Aug", "Sep", "Oct", "Nov", "Dec"};
	int Y, M, D, h, mi, s;
	civil_from_unix((int64_t) t + tzoff, Y, M, D, h, mi, s);
	std::string r = strf("%s %2d ", mon[M - 1], D);
	if ((int64_t) t > now - 15552000) r += strf("%02d:%02d", h, mi);
	else r += strf(" %04d", Y);
	return r;
}

static std::string full_stamp_of(uint32_t t, int tzoff) {
	if (t == 0) return std::string(19, ' ');
	int Y, M, D, h, mi, s;
	civil_from_unix((int64_t) t + tzoff, Y, M, D, h, mi, s);
	return strf("%04d-%02d-%02d %02d:%02d:%02d", Y, M, D, h, mi, s);
}

static void ratio_of(uint64_t packed, uint64_t size, std::string &f, std::string &d) {
	if (size == 0) { f = d = strf("%5.1f%%", 100.0); return; }
	float rf = ((float) packed * 100.0f) / (float) size;
	double rd = ((double) packed * 100.0) / (double) size;
	f = strf("%5.1f%%", (double) rf);
	d = strf("%5.1f%%", rd);
}

// listing ground truth of a member is carried in these cfg-free fields:
//   kind gpath gname gtarget gmtime gperms(full 16-bit word, -1 none) guid ggid gos9 level os(for display) method packed orig crc
struct ListTruth {
	uint64_t packed, orig;
	unsigned crc;
	std::string method;
	int os_display;
};

static Row render_row(const Member &m, const ListTruth &lt, int64_t now, int tzoff) {
	Row r;
	bool isdir = lt.method == "-lhd-";
	if (m.gos9 >= 0) {
		r.perm = isdir ? "d" : "-";
		const char *pp = "sewrewr";
		for (int i = 0; i < 7; ++i) r.perm += (m.gos9 & (1 << (6 - i))) ? pp[i] : '-';
		r.perm += "  ";
	} else if (m.gperms >= 0) {
		r.perm = !isdir ? "-" : (m.kind == 'l' ? "l" : "d");
		const char *pp = "rwxrwxrwx";
		for (int i = 0; i < 9; ++i) r.perm += (m.gperms & (1 << (8 - i))) ? pp[i] : '-';
	} else r.perm = strf("%-10s", os_name(lt.os_display));
	r.ids = m.guid >= 0 ? strf("%5d/%-5d", m.guid, m.ggid) : std::string(11, ' ');
	r.packed = strf("%7lu", (unsigned long) lt.packed);
	r.size = strf("%7lu", (unsigned long) lt.orig);
	if (isdir) r.ratio_f = r.ratio_d = "******";
	else ratio_of(lt.packed, lt.orig, r.ratio_f, r.ratio_d);
	r.mcrc = strf("%-5s %04x", lt.method.c_str(), lt.crc);
	r.stamp = stamp_of((uint32_t) m.gmtime, now, tzoff);
	r.full = full_stamp_of((uint32_t) m.gmtime, tzoff);
	r.lv = strf("[%d]", m.level);
	r.name = m.gpath + m.gname + (m.kind == 'l' ? " -> " + m.gtarget : "");
	r.wide = m.gpath + m.gname + (m.kind == 'l' ? "|" + m.gtarget : "") + "\n";
	return r;
}

static std::string pad(const std::string &s, size_t w) { return s.size() >= w ? s : s + std::string(w - s.size(), ' '); }

// renders the whole expected stdout; ratio variant chosen by 'dbl'
static std::string render_list(const Plan &p, const std::vector<ListTruth> &lts, bool dbl) {
	std::string cmd = p.argv.size() == 2 ? std::string("l") : p.argv[1];
	if (!cmd.empty() && cmd[0] == '-') cmd.erase(0, 1);
	bool verbose_cmd = cmd[0] == 'v';
	bool wide = false;
	int quiet = 0;
	for (size_t i = 1; i < cmd.size(); ++i) {
		if (cmd[i] == 'v') wide = true;
		if (cmd[i] == 'q') {
			if (i + 1 < cmd.size() && cmd[i + 1] >= '0' && cmd[i + 1] <= '9') { quiet = cmd[i + 1] - '0'; ++i; }
			else quiet = 2;
		}
	}
	int64_t now = p.geti("now", 1335830400);
	int tzoff = tz_offset_of(p.gets("tz", "UTC"));
	std::string out;
	// headings and separators
	std::string head, sep;
	if (!verbose_cmd && !wide) {
		head = pad(" PERMSSN", 11) + pad(" UID  GID", 12) + pad("   SIZE", 8) + pad(" RATIO", 7) + pad("    STAMP", 13) + "       NAME";
		sep = std::string(10, '-') + " " + std::string(11, '-') + " " + std::string(7, '-') + " " + std::string(6, '-') + " " + std::string(12, '-') + " " + std::string(20, '-');
	} else if (!verbose_cmd && wide) {
		head = pad(" PERMSSN", 11) + pad(" UID  GID", 12) + pad("   SIZE", 8) + pad(" RATIO", 7) + pad("    STAMP", 13) + " LV";
		sep = std::string(10, '-') + " " + std::string(11, '-') + " " + std::string(7, '-') + " " + std::string(6, '-') + " " + std::string(12, '-') + " " + std::string(3, '-');
	} else if (verbose_cmd && !wide) {
		head = pad(" PERMSSN", 11) + pad(" UID  GID", 12) + pad(" PACKED", 8) + pad("   SIZE", 8) + pad(" RATIO", 7) + pad("METHOD CRC", 11) + pad("    STAMP", 13) + "      NAME";
		sep = std::string(10, '-') + " " + std::string(11, '-') + " " + std::string(7, '-') + " " + std::string(7, '-') + " " + std::string(6, '-') + " " + std::string(10, '-') + " " + std::string(12, '-') + " " + std::string(13, '-');
	} else {
		head = pad(" PERMSSN", 11) + pad(" UID  GID", 12) + pad(" PACKED", 8) + pad("   SIZE", 8) + pad(" RATIO", 7) + pad("METHOD CRC", 11) + pad("    STAMP", 20) + " LV";
		sep = std::string(10, '-') + " " + std::string(11, '-') + " " + std::string(7, '-') + " " + std::string(7, '-') + " " + std::string(6, '-') + " " + std::string(10, '-') + " " + std::string(19, '-') + " " + std::string(3, '-');
	}
	if (quiet < 2) out += head + "\n" + sep + "\n";
	uint64_t nfiles = 0, sum_packed = 0, sum_orig = 0;
	for (size_t i = 0; i < p.members.size(); ++i) {
		const Member &m = p.members[i];
		if (!selected(p, m)) continue;
		Row r = render_row(m, lts[i], now, tzoff);
		const std::string &ratio = dbl ? r.ratio_d : r.ratio_f;
		if (!verbose_cmd && !wide) out += r.perm + " " + r.ids + " " + r.size + " " + ratio + " " + r.stamp + " " + r.name + "\n";
		else if (!verbose_cmd && wide) out += r.wide + r.perm + " " + r.ids + " " + r.size + " " + ratio + " " + r.stamp + " " + r.lv + "\n";
		else if (verbose_cmd && !wide) out += r.perm + " " + r.ids + " " + r.packed + " " + r.size + " " + ratio + " " + r.mcrc + " " + r.stamp + " " + r.name + "\n";
		else out += r.wide + r.perm + " " + r.ids + " " + r.packed + " " + r.size + " " + ratio + " " + r.mcrc + " " + r.full + " " + r.lv + "\n";
		++nfiles;
		sum_packed += lts[i].packed;
		sum_orig += lts[i].orig;
	}
	if (quiet < 2) {
		out += sep + "\n";
		std::string rf, rd;
		if (sum_orig == 0) rf = rd = "******";
		else ratio_of(sum_packed, sum_orig, rf, rd);
		uint32_t am = (uint32_t) p.geti("amtime", 946684800);
		std::string foot = " Total    " + std::string(" ") + (nfiles == 1 ? strf("%5d file ", (int) nfiles) : strf("%5d files", (int) nfiles)) + " ";
		if (verbose_cmd) foot += strf("%7lu", (unsigned long) sum_packed) + " ";
		foot += strf("%7lu", (unsigned long) sum_orig) + " " + (dbl ? rd : rf) + " ";
		if (verbose_cmd) foot += std::string(10, ' ') + " ";
		foot += (verbose_cmd && wide) ? full_stamp_of(am, tzoff) : stamp_of(am, now, tzoff);
		out += foot + "\n";
	}
	return out;
}

// ---------------------------------------------------------------- C19

struct C19 : Scenario {
	const char *property() const override { return "C19"; }
	uint64_t total_runs(uint64_t, const std::string &tier) override { return tier == "quick" ? 150000 : 6000000; }
	const char *nontrivial_rule() const override {
		return "a run is one generated archive of 1-8 headers (sizes up to 2^32-1, every OS byte, Unix and OS-9 permission words, uid/gid, "
		       "symlinks, directories, levels 0-3, time stamps around now-6 months, 0, 2^31, 2^32-1) listed by one of l/lv/v/vv with a quiet "
		       "level and 0-3 wildcard patterns, under a simulated clock ('now'), archive mtime, fixed-offset time zone and stream kind "
		       "(file, stdin pipe, stdin seekable); stdout must equal the independent renderer's output byte for byte. Non-trivial = at "
		       "least 2 rows printed; distinct = distinct trace hash";
	}
	void describe(std::string &real, std::string &stub, std::string &assume) const override {
		real = "src/list.c, src/filter.c, src/safe.c, src/main.c and the whole library (unmodified; main renamed at compile time)";
		stub = "clock (time()), archive mtime (fstat on the simulated stream), TZ (fixed-offset zones), terminal (captured stdout), archive source";
		assume = "ratio accepted if it equals the single- or the double-precision rendering; totals kept below 2^32; strings printable (C18 owns the rest); fixed-offset zones only";
	}
	static std::string printable_name(Rng &rng, int maxlen) {
		static const char al[] = "abcdefghijklmnopqrstuvwxyzABCDEFGHIJKLMNOPQRSTUVWXYZ0123456789._-+=,~ #@!%^&()[]{}";
		int n = 1 + (int) rng.below((uint64_t) maxlen);
		std::string s;
		for (int i = 0; i < n; ++i) s.push_back(al[rng.below(sizeof al - 1)]);
		s[rng.below(s.size())] = (char) ('a' + rng.below(26));
		if (s == "." || s == "..") s += "x";
		return s;
	}
	Plan generate(uint64_t seed, uint64_t run, const std::string &) override {
		Rng rng(seed, 19, run);
		Plan p;
		p.scenario = "list";
		static const char *tzs[] = {"UTC", "JST-9", "EST5", "IST-5:30", "NST3:30", "XXX-12", "YYY12"};
		std::string tz = tzs[rng.below(7)];
		p.sets("tz", tz);
		int tzoff = tz_offset_of(tz);
		int64_t now;
		switch (rng.below(5)) {
			case 0: now = 1000000 + (int64_t) rng.below(20000000); break;
			case 1: now = 2147483647LL - (int64_t) rng.below(100000) + (int64_t) rng.below(200000); break;
			case 2: now = 4294967295LL - (int64_t) rng.below(1000000); break;
			default: now = 700000000 + (int64_t) rng.below(1500000000); break;
		}
		p.seti("now", now);
		p.seti("amtime", rng.chance(1, 8) ? 0 : (rng.chance(1, 3) ? now - 15552000 + (int64_t) rng.below(3) - 1 : (int64_t) rng.below(4294967296ULL)));
		if (p.geti("amtime") < 0) p.seti("amtime", 1);
		int n = 1 + (int) rng.below(8);
		uint64_t sum_orig = 0, sum_packed = 0;
		for (int i = 0; i < n; ++i) {
			Member m;
			m.level = (int) rng.below(4);
			int kindsel = (int) rng.below(8);
			m.kind = kindsel == 0 ? 'l' : kindsel == 1 ? 'd' : 'f';
			std::string path;
			int depth = (int) rng.below(3);
			for (int dd = 0; dd < depth; ++dd) path += printable_name(rng, 8) + "/";
			if (m.kind == 'd' && path.empty()) path = printable_name(rng, 8) + "/";
			std::string name = m.kind == 'd' ? "" : printable_name(rng, rng.chance(1, 12) ? 120 : 12);
			if (m.kind == 'f' && rng.chance(1, 60)) {
				// a name longer than PATH_MAX (legal through extended headers)
				m.level = 2 + (int) rng.below(2);
				name = printable_name(rng, 8);
				size_t want = 4000 + rng.below(1200);
				while (name.size() < want) name += printable_name(rng, 40);
				name += rng.chance(1, 2) ? ".txt" : "";
				p.sets("longname", "1");
			}
			// keep level-0/1 in-header names within the one-byte length field
			if ((path + name).size() > 180 && name.size() < 3000) { if (name.size() > 40) name = name.substr(0, 40); if ((path + name).size() > 180) path = m.kind == 'd' ? path.substr(0, 60) + "/" : ""; }
			std::string target = m.kind == 'l' ? (rng.chance(1, 3) ? "../" : "") + printable_name(rng, 10) : "";
			m.gpath = path; m.gname = name; m.gtarget = target;
			static const uint8_t oss[] = {'M', 'w', 'W', 'U', '2', 'C', 'm', 'J', 'F', 'R', 'T', '9', 'K', '3', 'H', 'a', 'A', 0, 'x', 0x7e, '!'};
			m.os = oss[rng.below(sizeof oss)];
			if (m.level == 2 && m.os == 'K') m.os = 'U';
			// sizes
			uint64_t orig;
			switch (rng.below(6)) {
				case 0: orig = 0; break;
				case 1: orig = rng.below(100); break;
				case 2: orig = rng.below(1ULL << 32); break;
				case 3: orig = 9999999 + rng.below(3) - 1; break;
				default: orig = rng.below(10000000); break;
			}
			if (sum_orig + orig >= (1ULL << 32)) orig = rng.below(1000);
			if (sum_orig + orig >= (1ULL << 32)) orig = 0;   // (the total is within 1000 of 2^32 already: totals stay below 2^32 by assumption)
			size_t dl = m.kind == 'f' ? rng.below(24) : 0;
			// packed/original exactly half-way between two printed values (xx.x5 %), and just beside it
			if (m.kind == 'f' && rng.chance(1, 10)) {
				uint64_t unit = 1 + rng.below(5);
				uint64_t o2 = 2000 * unit;
				if (sum_orig + o2 < (1ULL << 32)) { orig = o2; dl = (size_t) (unit * (2 * rng.below(12) + 1)) + (rng.chance(1, 3) ? 1 : 0); if (dl > 200) dl = 200; }
			}
			m.data.resize(dl);
			for (auto &b : m.data) b = rng.byte();
			m.plain.clear();
			m.orig = m.kind == 'f' ? (int64_t) orig : 0;
			if (m.kind != 'f' && rng.chance(1, 5)) {
				// a directory or symlink header may carry size fields (and skipped data) as well; totals are sums of rows
				size_t dl2 = rng.below(12);
				m.data.resize(dl2);
				for (auto &b : m.data) b = rng.byte();
				dl = dl2;
				uint64_t o2 = rng.below(100000);
				if (sum_orig + o2 < (1ULL << 32)) { m.orig = (int64_t) o2; orig = o2; } else orig = 0;
			}
			m.crc = (int64_t) rng.below(65536);
			uint64_t packed = dl;
			if (i == n - 1 && m.kind == 'f' && rng.chance(1, 3)) {
				// last member: declared packed size not backed by input
				uint64_t big = rng.chance(1, 2) ? rng.below(1ULL << 32) : 10000000 + rng.below(100);
				if (sum_packed + big < (1ULL << 32)) { packed = big; m.packed = (int64_t) big; }
			}
			if (m.kind == 'f') {
				static const char *ms[] = {"-lh0-", "-lh1-", "-lh5-", "-lh6-", "-lh7-", "-lz5-", "-lzs-", "-pm2-", "-lhx-", "-lh2-", "-lh3-", "-pm0-", "-lz4-", "-lh4-"};
				m.method = ms[rng.below(14)];
				// a method field is five bytes, not a string: a NUL inside it shortens what is printed, the column stays five wide
				if (i > 0 && rng.chance(1, 16)) { static const char *nm[] = {"-lh\0-", "-l\0\0-", "-\0h5-", "-lh5\0"}; m.method = std::string(nm[rng.below(4)], 5); }
			} else m.method = "-lhd-";
			// permissions
			int perms = -1, uid = -1, gid = -1;
			int psel = (int) rng.below(4);
			if (m.kind == 'l') psel = 1;
			// level-0 extended areas of PMarc members are comments, not Unix metadata
			if (m.level == 0 && m.method.compare(0, 3, "-pm") == 0) psel = 0;
			if (psel == 1) {
				perms = (int) rng.below(65536);
				if (m.kind == 'l') perms = 0120000 | (perms & 07777);
				else if ((perms & 0170000) == 0120000) perms ^= 0020000;
				if (rng.chance(3, 4)) { uid = (int) rng.below(65536); gid = (int) rng.below(65536); }
			}
			TreeOpts o;
			o.tzoff = tzoff;
			// time stamp
			int64_t mt;
			switch (rng.below(8)) {
				case 0: mt = 0; break;
				case 1: case 2: mt = now - 15552000 + (int64_t) rng.below(5) - 2; break;
				case 3: mt = 1; break;
				case 4: mt = 4294967295LL - (int64_t) rng.below(3); break;
				case 5: mt = 2147483647LL + (int64_t) rng.below(3) - 1; break;
				default: mt = (int64_t) rng.below(4294967296ULL); break;
			}
			if (mt < 0) mt = 1;
			if (mt > 4294967295LL) mt = 4294967295LL;
			bool unix_time_source = m.level >= 2 || (perms >= 0 && (m.level == 0 || m.level == 1));
			if (!unix_time_source && mt) {
				// DOS stamp: even seconds, 1980-01-02 .. 2099 local
				int64_t lo = 315532800 + 86400 * 2, hi = 4102444800LL - 86400 * 2;
				if (mt < lo || mt > hi) mt = lo + (int64_t) rng.below((uint64_t)(hi - lo));
				// local even seconds
				mt = ((mt + tzoff) & ~1LL) - tzoff;
			}
			m.gmtime = mt;
			if (rng.chance(1, 12) && p.gets("longname") != "1") {
				// a name without a lower-case letter: members of the MS-DOS family of OS types (and level-0 members without a
				// Unix area, which have no OS type at all) are shown in lower case - path and name, not a link's target
				auto up = [](std::string s) { for (auto &ch : s) ch = (char) toupper((unsigned char) ch); return s; };
				auto low = [](std::string s) { for (auto &ch : s) ch = (char) tolower((unsigned char) ch); return s; };
				path = up(path); name = up(name);
				if (rng.chance(1, 2)) target = up(target);
				bool family = m.level == 0 ? perms < 0 : (m.os == 0 || m.os == 'M' || m.os == 'a' || m.os == '2' || m.os == ' ');
				m.gpath = family ? low(path) : path;
				m.gname = family ? low(name) : name;
				m.gtarget = target;
				p.sets("allcaps", "1");
			}
			encode_names(m, path, m.kind == 'l' ? name + "|" + target : name);
			encode_unix_meta(m, perms, uid, gid, mt, tzoff, false);
			if (m.level == 0 && perms >= 0 && mt == 0) m.time = 0;
			m.gperms = perms;
			if (m.level == 0 && perms >= 0 && uid < 0) uid = gid = 0;   // the level-0 Unix area always carries ids
			m.guid = uid; m.ggid = gid;
			if (perms >= 0 && m.os == 'K' && m.level != 0) { m.gos9 = perms; }
			if (m.level == 0 && perms >= 0) { /* l0 Unix area starts with 'U': os becomes Unix */ }
			if (perms < 0 && m.kind != 'l' && m.level >= 1 && rng.chance(1, 8)) {
				// native OS-9 header
				ExtHdr e; e.type = 0xcc; e.data.resize(12 + rng.below(6));
				for (auto &b : e.data) b = rng.byte();
				int os9 = (int) rng.below(65536);
				e.data[7] = os9 & 0xff; e.data[8] = os9 >> 8;
				m.ext.push_back(e);
				m.gos9 = os9;
			}
			if (m.level >= 2 && rng.chance(1, 3)) { ExtHdr e; e.type = 0; e.data = {0, 0}; e.auto_crc = true; m.ext.push_back(e); }
			if (m.level >= 1 && rng.chance(1, 6)) add_noise_ext(rng, m);
			sum_orig += m.kind == 'f' ? orig : (m.orig > 0 ? (uint64_t) m.orig : 0);
			sum_packed += packed;
			p.members.push_back(m);
		}
		bool dup_names = false;
		if (rng.chance(1, 8) && p.gets("longname") != "1") {
			// the same name more than once (legal: an archive that was appended to): a name argument selects every one of them
			size_t nd = 1 + rng.below(3);
			for (size_t k = 0; k < nd; ++k) {
				Member d = p.members[rng.below(p.members.size())];
				uint64_t o = d.orig > 0 ? (uint64_t) d.orig : 0, pk = d.packed >= 0 ? (uint64_t) d.packed : d.data.size();
				if (d.packed >= 0) continue;   // only the last member may declare bytes the input does not hold
				if (sum_orig + o >= (1ULL << 32) || sum_packed + pk >= (1ULL << 32)) continue;
				sum_orig += o; sum_packed += pk;
				p.members.insert(p.members.begin() + (long) rng.below(p.members.size()), d);
				dup_names = true;
			}
		}
		// the first header is how the archive is recognised: its method field has to be one the signature search knows
		if (!p.members.empty() && p.members[0].method.find('\0') != std::string::npos) p.members[0].method = "-lh5-";
		static const char *cmds[] = {"l", "lv", "v", "vv", "lq", "vq0", "lvq1", "vvq2", "-l", "vq", "lq1", "vvq0", "lvv", "vvv", "lvqv", "vvq2v", "-lvv", "lq2v"};
		p.argv = {"lha", cmds[rng.below(18)], rng.chance(1, 4) ? "-" : "/w/a.lzh"};
		if (p.argv[2] == "-") p.sets("srckind", rng.chance(1, 2) ? "FILE_PIPE" : "FILE_SEEK");
		else if (rng.chance(1, 6)) p.sets("srckind", "FILE_HALFSEEK");
		if (rng.chance(1, 16)) {
			// "lha ARCHIVE" is "lha l ARCHIVE", whatever the archive is called
			static const char *names[] = {"lv.lzh", "env.lzh", "tq.lzh", "evil.lzh", "a.lzh", "lq", "pq1v", "xf.lzh", "vv", "live-cd.lzh"};
			std::string nm = names[rng.below(10)];
			p.sets("arcname", nm);
			p.argv = {"lha", nm};
			p.sets("srckind", "FILE_SEEK");
			return p;
		}
		int nf = rng.chance(1, 2) ? 0 : 1 + (int) rng.below(3);
		if (rng.chance(1, 30)) { p.argv.push_back("no-member-is-called-this*"); p.sets("zero_rows", "1"); return p; }   // a listing without rows
		if (dup_names) {
			// plain names only, some of them of the duplicated members
			nf = 1 + (int) rng.below(3);
			for (int i = 0; i < nf; ++i) {
				const Member &m = p.members[rng.below(p.members.size())];
				std::string full = m.gpath + m.gname;
				if (full.empty() || full.find_first_of("*?") != std::string::npos) full = "nothing-by-this-name";
				p.argv.push_back(full);
			}
			p.sets("dupnames", "1");
			return p;
		}
		for (int i = 0; i < nf; ++i) {
			const Member &m = p.members[rng.below(p.members.size())];
			std::string full = m.gpath + m.gname;
			std::string pat;
			switch (rng.below(6)) {
				case 0: pat = full; break;
				case 1: pat = "*"; break;
				case 2: pat = full.substr(0, rng.below(full.size() + 1)) + "*"; break;
				case 3: { pat = full; if (!pat.empty()) pat[rng.below(pat.size())] = '?'; break; }
				case 4: { pat = full; for (auto &ch : pat) if (ch >= 'a' && ch <= 'z') { ch = (char)(ch - 32); break; } break; }
				default: pat = "*" + full.substr(rng.below(full.size() + 1)); break;
			}
			// very long names only meet simple patterns: the tool's matcher backtracks (polynomial in the name length with the
			// number of stars as exponent), which is the user's own doing, not the archive's
			bool anylong = p.gets("longname") == "1";
			if (anylong) pat = full.size() > 3000 ? (rng.chance(1, 2) ? "*" + full.substr(full.size() - 4) : full.substr(0, 4095)) : (rng.chance(1, 2) ? full : "*");
			// runs of stars, stars that must match the empty string, stars next to '?'
			switch (anylong ? 7 : rng.below(8)) {
				case 0: pat += "**"; break;
				case 1: pat = "**" + pat; break;
				case 2: if (!pat.empty()) pat.insert(rng.below(pat.size() + 1), "*"); break;
				case 3: if (pat.size() > 1) { size_t k = rng.below(pat.size()); pat = pat.substr(0, k) + "*" + pat.substr(k + 1) + "*"; } break;
				default: break;
			}
			if (pat.empty()) pat = "*";
			p.argv.push_back(pat);
		}
		return p;
	}
	RunResult execute(const Plan &p, Plan *) override {
		begin_run(p);
		RunResult res;
		BuiltArchive a = build_archive(p);
		// (plans are only meaningful when the archive can be recognised at all: a minimiser that drops members may put one
		// with a NUL in its method field first; that is not the subject here)
		if (!p.members.empty()) {
			const std::string &m0 = p.members[0].method;
			bool known = m0.size() == 5 && m0[0] == '-' && m0[4] == '-' && ((m0[1] == 'l' && m0[2] == 'h') || (m0[1] == 'l' && m0[2] == 'z' && (m0[3] == '4' || m0[3] == '5' || m0[3] == 's')) || (m0[1] == 'p' && m0[2] == 'm' && m0[3] != 's'));
			if (!known) { res.trace = finish_trace(); return res; }
		}
		// listing truth from the specification each member was built from
		std::vector<ListTruth> lts;
		for (size_t i = 0; i < p.members.size(); ++i) {
			const Member &m = p.members[i];
			ListTruth lt;
			lt.packed = m.packed >= 0 ? (uint64_t) m.packed : a.layout[i].data_len;
			if (m.packed >= 0 && m.level == 1) for (auto &e : m.ext) lt.packed -= 3 + e.data.size();
			lt.orig = m.orig >= 0 ? (uint64_t) m.orig : member_plain(m).size();
			lt.crc = m.crc >= 0 ? (unsigned) m.crc : crc16_bitwise(member_plain(m));
			lt.method = m.method;
			lt.os_display = m.level == 0 ? 0 : m.os;
			lts.push_back(lt);
		}
		CliEnv env(p);
		g_sim.budget = 100000 + 64 * a.bytes.size();
		CliResult r = env.run(p, a.bytes);
		if (r.budget) { res.fail("C19.budget", "budget", "list command did not finish within the step budget"); res.trace = finish_trace(); return res; }
		std::string ef = render_list(p, lts, false), ed = render_list(p, lts, true);
		trace_str(r.out);
		trace_u64((uint64_t) r.status);
		if (r.out != ef && r.out != ed) {
			// first differing line, for the report and for the signature (which column family)
			auto lines_a = split_ch(r.out, '\n'), lines_e = split_ch(ef, '\n');
			size_t li = 0;
			while (li < lines_a.size() && li < lines_e.size() && lines_a[li] == lines_e[li]) ++li;
			std::string got = li < lines_a.size() ? lines_a[li] : "<missing>", exp = li < lines_e.size() ? lines_e[li] : "<missing>";
			size_t col = 0;
			while (col < got.size() && col < exp.size() && got[col] == exp[col]) ++col;
			std::string sig = "list:" + p.argv[1];
			res.fail("C19.list_output", sig, strf("line %zu differs at column %zu:\n  got      %s\n  expected %s", li + 1, col, printable(got).c_str(), printable(exp).c_str()));
		} else if (r.status != 0 || r.exited) res.fail("C19.exit_status", "exit", strf("list command exit status %d", r.status));
		size_t badpos;
		if (res.ok && !c18_output_ok(r.out + r.err, &badpos)) res.fail("C18.printable", "printable:list", "list output contains a non-printable byte");
		size_t rows = 0;
		for (auto &m : p.members) if (selected(p, m)) ++rows;
		res.ops = 1;
		res.nontrivial = rows >= 2;
		count("kind.cmd." + p.argv[1]);
		count("kind.tz." + p.gets("tz"));
		count("kind.src." + (p.argv.size() > 2 && p.argv[2] == "-" ? "stdin_" + p.gets("srckind") : p.gets("srckind", "FILE_SEEK")));
		if (p.argv.size() == 2) count("kind.one_argument_form");
		if (p.gets("dupnames") == "1") count("kind.duplicate_names_with_name_arguments");
		if (p.gets("allcaps") == "1") count("kind.name_without_lower_case_letter");
		if (p.gets("zero_rows") == "1") count("kind.listing_without_rows");
		count("probe.clock_reads", g_sim.clock_reads);
		count("probe.rows", rows);
		res.trace = finish_trace();
		return res;
	}
};
REGISTER_SCENARIO(C19);

// ---------------------------------------------------------------- C18

struct C18 : Scenario {
	const char *property() const override { return "C18"; }
	uint64_t total_runs(uint64_t, const std::string &tier) override { return tier == "quick" ? 120000 : 5000000; }
	const char *nontrivial_rule() const override {
		return "a run is one archive of 1-4 headers whose archive-derived strings (name, path components, link target, user/group names, the "
		       "5-byte method field of the first and of later members) contain arbitrary bytes 0x01-0xFF, run through one of the modes "
		       "l lv v vv t x xn xq0 xq1 xq2 xf xi p pq e with optional patterns on SimFS; every byte of the simulated terminal (stdout + "
		       "stderr) must be in {0x20-0x7E, LF, CR, TAB} (file contents dumped by p are generated printable so the whole output is "
		       "checked). Non-trivial = the run printed at least one archive-derived string that contained a hostile byte in the archive; "
		       "distinct = distinct trace hash. The same scan runs on the output of every other CLI scenario (C06 C07 C08 C10 C19)";
	}
	void describe(std::string &real, std::string &stub, std::string &assume) const override {
		real = "src/*.c and the whole library (unmodified)";
		stub = "terminal (captured stdout and stderr), SimFS, scripted stdin, archive source";
		assume = "NUL cannot occur inside a C string field once decoded; hostile bytes are 0x01-0xFF";
	}
	static Bytes hostile_str(Rng &rng, int maxlen, bool allow_sep) {
		int n = 1 + (int) rng.below((uint64_t) maxlen);
		if (maxlen >= 8 && rng.chance(1, 12)) n = 200 + (int) rng.below(150);   // long enough to leave any fixed-size fast path
		Bytes b;
		for (int i = 0; i < n; ++i) {
			uint8_t c;
			switch (rng.below(6)) {
				case 0: c = (uint8_t)(1 + rng.below(31)); break;           // control
				case 1: c = (uint8_t)(0x7f + rng.below(129)); break;       // DEL and high
				case 2: c = 0x1b; break;
				default: c = (uint8_t)('a' + rng.below(26)); break;
			}
			if (!allow_sep && (c == '/' || c == '\\' || c == 0xff || c == '|')) c = 'q';
			b.push_back(c);
		}
		if (rng.chance(1, 6)) {
			// printf directives are printable: they survive any sanitiser and only matter if the text is ever used as a format
			static const char *fmt[] = {"%c%c%c%c", "%c", "%lc%c", "%5$c%c", "%%%c", "%x%c%c", "%d%c", "%c%c%c%c%c%c%c%c", "%s"};
			std::string f = fmt[rng.below(9)];
			size_t at = rng.below(b.size() + 1);
			b.insert(b.begin() + (long) at, f.begin(), f.end());
		}
		return b;
	}
	Plan generate(uint64_t seed, uint64_t run, const std::string &) override {
		Rng rng(seed, 18, run);
		Plan p;
		p.scenario = "terminal";
		int n = 1 + (int) rng.below(4);
		for (int i = 0; i < n; ++i) {
			Member m;
			m.level = (int) rng.below(4);
			int ks = (int) rng.below(6);
			m.kind = ks == 0 ? 'l' : ks == 1 ? 'd' : 'f';
			m.os = rng.chance(1, 2) ? 'U' : 'M';
			// the OS byte is archive data too (shown in the permission column when no permissions are recorded)
			if (rng.chance(1, 4)) m.os = (uint8_t) (rng.chance(1, 2) ? 0x7f + rng.below(129) : 1 + rng.below(255));
			// (OS-9/68k level-2 headers are two bytes longer than they say: with a generated header of the stated length the
			// first two data bytes would be taken for header bytes and 'p' would print part of the next header)
			if (m.os == 'K' && m.level == 2) m.os = 'k';
			Bytes name = hostile_str(rng, 10, false), dir = hostile_str(rng, 8, false), target = hostile_str(rng, 10, true);
			for (auto &c : target) if (c == '|') c = 'z';
			std::string path = rng.chance(1, 2) ? to_str(dir) + "/" : "";
			if (m.kind == 'd') { path = to_str(dir) + "/"; name.clear(); }
			m.gpath = path; m.gname = to_str(name); m.gtarget = m.kind == 'l' ? to_str(target) : "";
			if (m.kind == 'f') {
				m.method = "-lh0-";
				m.plain = to_bytes("printable data\n");
				m.data = m.plain;
				if (rng.chance(1, 5)) m.crc = 1;   // CRC error path prints too
				// hostile method field: first member only in the positions the scanner leaves free
				if (rng.chance(1, 3)) {
					if (i == 0) { m.method = "-lh0-"; m.method[4 - 1] = (char)(rng.chance(1, 2) ? 0x1b : (0x80 + rng.below(100))); }
					else { Bytes mm = hostile_str(rng, 5, true); mm.resize(5, 0x07); m.method = to_str(mm); if (rng.chance(1, 2)) { m.method[0] = '-'; m.method[4] = '-'; } }
				}
			} else m.method = "-lhd-";
			int perms = m.kind == 'l' ? 0120777 : (rng.chance(1, 2) ? (m.kind == 'd' ? 040755 : 0100644) : -1);
			// the mode word is archive data as well: any 16 bits (file-type values no tool writes included), except those that
			// would turn the entry into a symbolic link
			if (m.kind != 'l' && perms >= 0 && rng.chance(1, 3)) { perms = (int) rng.below(65536); if ((perms & 0170000) == 0120000) perms ^= 0020000; }
			encode_names(m, path, m.kind == 'l' ? m.gname + "|" + m.gtarget : m.gname);
			encode_unix_meta(m, perms, perms >= 0 ? 1000 : -1, 1000, 1000000000 + (int64_t) rng.below(1000000), 0, false);
			if (m.level >= 1 && rng.chance(1, 3)) { ExtHdr e; e.type = 0x53; e.data = hostile_str(rng, 8, true); m.ext.push_back(e); }
			if (m.level >= 1 && rng.chance(1, 3)) { ExtHdr e; e.type = 0x52; e.data = hostile_str(rng, 8, true); m.ext.push_back(e); }
			p.members.push_back(m);
		}
		if (rng.chance(1, 5) && !p.members.empty()) {
			// an earlier file whose (hostile) name is then used as a directory component by a later directory or symlink
			// entry: the tool's "parent is not a directory" diagnostics carry the name
			Member f = p.members[0];
			if (f.kind == 'f' && !f.gname.empty() && f.gpath.empty()) {
				Member d;
				d.level = (int) rng.below(3);
				d.os = 'U';
				d.method = "-lhd-";
				bool link = rng.chance(1, 2);
				d.kind = link ? 'l' : 'd';
				std::string path = f.gname + "/", name = link ? "lnk" : "";
				if (!link) path += "sub/";
				d.gpath = path; d.gname = name; d.gtarget = link ? "target" : "";
				encode_names(d, path, link ? name + "|target" : name);
				encode_unix_meta(d, link ? 0120777 : 040755, 1000, 1000, 1000000000, 0, false);
				p.members.push_back(d);
			}
		}
		if (rng.chance(1, 8) && !p.members.empty() && p.members[0].kind == 'f' && p.members[0].gpath.empty() && !p.members[0].gname.empty()) {
			// a regular file below a path component that is itself an (already extracted) file: the tool cannot even stat it
			Member g = p.members[0];
			Member f2;
			f2.level = (int) rng.below(3);
			f2.os = 'U';
			f2.kind = 'f';
			f2.method = "-lh0-";
			f2.plain = to_bytes("x\n"); f2.data = f2.plain;
			Bytes nm2 = hostile_str(rng, 8, false);
			f2.gpath = g.gname + "/"; f2.gname = to_str(nm2);
			encode_names(f2, f2.gpath, f2.gname);
			encode_unix_meta(f2, -1, -1, -1, 1000000000, 0, false);
			p.members.push_back(f2);
		}
		static const char *cmds[] = {"l", "lv", "v", "vv", "t", "xf", "xn", "xq0", "xq1", "xq2", "xfi", "p", "pq", "ef", "tq1", "pn", "xfv", "tv", "xfw=out", "vq1"};
		p.argv = {"lha", cmds[rng.below(20)], "/w/a.lzh"};
		if (p.argv[1].find('n') != std::string::npos && rng.chance(1, 2)) {
			// dry run over files that exist already: the report says so, naming them
			for (auto &m : p.members)
				if (m.kind == 'f' && !m.gname.empty() && m.gname.find('\0') == std::string::npos && m.gpath.find('\0') == std::string::npos) {
					FsEnt e; e.type = 'f'; e.path = "/w/x/y/root/" + m.gpath + m.gname; e.data = to_bytes("old"); e.mode = 0644;
					bool clash = false;
					for (auto &x : p.fs) if (x.path == e.path || x.path.compare(0, e.path.size() + 1, e.path + "/") == 0 || e.path.compare(0, x.path.size() + 1, x.path + "/") == 0) clash = true;
					if (!clash) p.fs.push_back(e);
				}
		} else if (rng.chance(1, 8)) {
			// the files exist already and the overwrite policy is to ask: the prompt names the file
			p.argv[1] = rng.chance(1, 2) ? "x" : "e";
			for (auto &m : p.members)
				if (m.kind == 'f' && !m.gname.empty() && m.gname.find('\0') == std::string::npos) {
					FsEnt e; e.type = 'f'; e.path = "/w/x/y/root/" + m.gpath + m.gname; e.data = to_bytes("old"); e.mode = 0644;
					bool clash = false;
					for (auto &x : p.fs) if (x.path == e.path || x.path.compare(0, e.path.size() + 1, e.path + "/") == 0 || e.path.compare(0, x.path.size() + 1, x.path + "/") == 0) clash = true;
					if (!clash) p.fs.push_back(e);
				}
			static const char *scr[] = {"n\nn\nn\nn\nn\nn\n", "y\ny\ny\ny\ny\ny\n", "s\n", "a\n", "q\nn\nzz\ny\nn\nn\nn\n"};
			p.stdin_script = scr[rng.below(5)];
		}
		if (rng.chance(1, 5)) {
			const Member &m = p.members[rng.below(p.members.size())];
			std::string full = m.gpath + m.gname;
			p.argv.push_back(rng.chance(1, 2) ? "*" : full);
		}
		p.seti("euid", rng.chance(1, 2) ? 0 : 1000);
		// level 0/1 base headers cannot hold the long strings: move such members to level 2
		for (auto &m : p.members) if (m.level <= 1 && (m.inname.size() > 150 || (m.gpath + m.gname + m.gtarget).size() > 150)) {
			Member n2 = m;
			n2.level = 2; n2.inname.clear(); n2.l0ext.clear(); n2.ext.clear();
			encode_names(n2, m.gpath, m.kind == 'l' ? m.gname + "|" + m.gtarget : m.gname);
			encode_unix_meta(n2, m.kind == 'l' ? 0120777 : -1, -1, -1, 1000000000, 0, false);
			m = n2;
		}
		for (auto &m : p.members) if (m.os == 'K' && m.level == 2) m.os = 'k';   // (also for members just moved to level 2)
		// (the tool does not check the results of creating its stream and reader: start-up under OOM is outside every listed property)
		if (rng.chance(1, 4)) p.seti("afail", 3 + (int64_t) rng.below(60));
		return p;
	}
	RunResult execute(const Plan &p, Plan *) override {
		begin_run(p);
		RunResult res;
		BuiltArchive a = build_archive(p);
		CliEnv env(p);
		g_sim.budget = 100000 + 64 * a.bytes.size();
		CliResult r = env.run(p, a.bytes);
		if (g_sim.fail_fired) count("fault.A-FAIL");
		if (r.budget) { res.fail("C18.budget", "budget", "command did not finish within the step budget"); res.trace = finish_trace(); return res; }
		trace_str(r.out);
		trace_str(r.err);
		std::string all = r.out + r.err;
		size_t bad = 0;
		if (!c18_output_ok(all, &bad)) {
			// signature: which stream and which mode family printed it
			bool in_out = bad < r.out.size();
			std::string cmd = p.argv[1];
			std::string ctx = all.substr(bad > 20 ? bad - 20 : 0, 40);
			res.fail("C18.printable", std::string("printable:") + cmd[0] + (in_out ? ":stdout" : ":stderr"),
			         strf("byte 0x%02x written to %s by 'lha %s' near \"%s\"", (unsigned char) all[bad], in_out ? "stdout" : "stderr", cmd.c_str(), printable(ctx).c_str()));
		}
		bool hostile_printed = false;
		for (char ch : all) if (ch == '?') hostile_printed = true;
		res.ops = 1;
		res.nontrivial = hostile_printed;
		count("kind.cmd." + p.argv[1]);
		if (all.find("OverWrite ?") != std::string::npos) count("probe.overwrite_prompt_shown");
		if (all.find("Failed to read file type") != std::string::npos) count("probe.file_type_message");
		if (all.find("Symbolic link") != std::string::npos) count("probe.symlink_message");
		if (all.find("but file is exist") != std::string::npos) count("probe.dry_run_existing_file");
		res.trace = finish_trace();
		return res;
	}
};
REGISTER_SCENARIO(C18);
