// Self-tests of the machinery itself.
//   selftest simfs <seed> <sequences>: SimFS against the kernel. Random operation
//   sequences are executed on SimFS and, by a forked child that has dropped to
//   uid/gid 65534, on a real scratch directory; per-operation result/errno and
//   the final trees must agree.
#include "framework.h"
#include <algorithm>
#include <cerrno>
#include <grp.h>
#include <dirent.h>
#include <fcntl.h>
#include <sstream>
#include <sys/stat.h>
#include <sys/wait.h>
#include <unistd.h>
#include <utime.h>

struct FsOp { std::string op, path, arg; int mode = 0; int64_t t = 0; };

static std::string gen_path(Rng &rng) {
	static const char *comps[] = {"a", "b", "c", "l", "m", "d1", "d2", "f", "..", ".", "a", "b", "d1"};
	int n = 1 + (int) rng.below(3);
	std::string p;
	int dots = 0;
	for (int i = 0; i < n; ++i) {
		std::string c = comps[rng.below(13)];
		if (c == "..") { if (++dots > 1) c = "a"; }
		if (i) p += rng.chance(1, 12) ? "//" : "/";
		p += c;
	}
	if (rng.chance(1, 8)) p += "/";
	return p;
}

static std::vector<FsOp> gen_ops(Rng &rng, bool as_root) {
	std::vector<FsOp> ops;
	// a small starting tree so that most later operations meet existing objects
	{
		static const char *pre[][3] = {{"mkdir", "a", ""}, {"mkdir", "d1", ""}, {"mkdir", "a/b", ""}, {"creat_excl", "f", "file"},
		                               {"creat_excl", "a/c", "inner"}, {"symlink", "l", "a"}, {"symlink", "m", "f"}, {"mkdir", "d1/d2", ""}};
		for (auto &q : pre) {
			if (rng.chance(1, 4)) continue;
			FsOp o; o.op = q[0]; o.path = q[1]; o.arg = q[2]; o.mode = 0755;
			ops.push_back(o);
		}
	}
	int n = 8 + (int) rng.below(25);
	static const int modes[] = {0755, 0700, 0555, 0500, 0000, 0644, 0600, 0444, 0311, 0777, 01777, 02755, 04755, 0111};
	for (int i = 0; i < n; ++i) {
		FsOp o;
		o.path = gen_path(rng);
		o.mode = modes[rng.below(14)];
		switch (rng.below(14)) {
			case 0: case 1: o.op = "mkdir"; break;
			case 2: case 3: o.op = "creat_excl"; o.arg = "data" + std::to_string(i); break;
			case 4: o.op = "creat"; o.arg = "xy" + std::to_string(i); break;
			case 5: o.op = "unlink"; break;
			case 6: o.op = "remove"; break;
			case 7: case 8: {
				o.op = "symlink";
				static const char *tg[] = {"a", "b", "../b", "/nonexistent", "a/b", ".", "l", "m", "d1/", "", "c/../a"};
				o.arg = tg[rng.below(11)];
				if (as_root && !o.arg.empty() && o.arg[0] == '/') o.arg = "a/../f";   // never point outside the scratch tree as root
				break;
			}
			case 9: o.op = "chmod"; break;
			case 10: o.op = rng.chance(1, 2) ? "stat" : "lstat"; break;
			case 11: o.op = "utime"; o.t = 100000 + (int64_t) rng.below(1000000000); break;
			case 12: o.op = "chown"; o.mode = rng.chance(1, 2) ? 65534 : 0; break;
			default: o.op = "open_read"; break;
		}
		ops.push_back(o);
	}
	return ops;
}

static std::string dump_real(const std::string &path, const std::string &label) {
	std::ostringstream o;
	struct stat st;
	if (::lstat(path.c_str(), &st) != 0) return "";
	char type = S_ISDIR(st.st_mode) ? 'd' : S_ISLNK(st.st_mode) ? 'l' : 'f';
	o << label << " " << type << " " << std::oct << (st.st_mode & 07777) << std::dec << " " << st.st_uid << ":" << st.st_gid;
	if (type == 'f') {
		Bytes data;
		// may be unreadable for the test user; the parent (root) reads it
		int fd = ::open(path.c_str(), O_RDONLY);
		if (fd >= 0) {
			uint8_t buf[4096];
			ssize_t k;
			while ((k = ::read(fd, buf, sizeof buf)) > 0) data.insert(data.end(), buf, buf + k);
			::close(fd);
		}
		o << " " << data.size() << ":" << std::hex << crc16_bitwise(data) << std::dec;
	}
	if (type == 'l') {
		char buf[4096];
		ssize_t k = ::readlink(path.c_str(), buf, sizeof buf);
		o << " -> " << hex_encode(std::string(buf, k > 0 ? (size_t) k : 0));
	}
	o << "\n";
	if (type == 'd') {
		std::vector<std::string> names;
		DIR *d = opendir(path.c_str());
		if (d) {
			while (struct dirent *e = readdir(d)) {
				std::string n = e->d_name;
				if (n != "." && n != "..") names.push_back(n);
			}
			closedir(d);
		}
		std::sort(names.begin(), names.end());
		for (auto &n : names) o << dump_real(path + "/" + n, label + "/" + hex_encode(n));
	}
	return o.str();
}

static void rm_rf(const std::string &path) {
	struct stat st;
	if (::lstat(path.c_str(), &st) != 0) return;
	if (S_ISDIR(st.st_mode)) {
		::chmod(path.c_str(), 0700);
		DIR *d = opendir(path.c_str());
		std::vector<std::string> names;
		if (d) {
			while (struct dirent *e = readdir(d)) {
				std::string n = e->d_name;
				if (n != "." && n != "..") names.push_back(n);
			}
			closedir(d);
		}
		for (auto &n : names) rm_rf(path + "/" + n);
		::rmdir(path.c_str());
	} else ::unlink(path.c_str());
}

static int real_op(const FsOp &o, int &err) {
	errno = 0;
	int r = 0;
	if (o.op == "mkdir") r = ::mkdir(o.path.c_str(), (mode_t) o.mode);
	else if (o.op == "creat_excl" || o.op == "creat") {
		int flags = O_CREAT | O_WRONLY | (o.op == "creat_excl" ? O_EXCL : 0);
		int fd = ::open(o.path.c_str(), flags, 0600);
		r = fd < 0 ? -1 : 0;
		if (fd >= 0) {
			int e2 = errno;
			if (::write(fd, o.arg.data(), o.arg.size()) < 0) {}
			::close(fd);
			errno = e2;
		}
	} else if (o.op == "unlink") r = ::unlink(o.path.c_str());
	else if (o.op == "remove") r = ::remove(o.path.c_str());
	else if (o.op == "symlink") r = ::symlink(o.arg.c_str(), o.path.c_str());
	else if (o.op == "chmod") r = ::chmod(o.path.c_str(), (mode_t) o.mode);
	else if (o.op == "chown") r = ::chown(o.path.c_str(), (uid_t) o.mode, (gid_t) o.mode);
	else if (o.op == "stat") { struct stat st; r = ::stat(o.path.c_str(), &st); }
	else if (o.op == "lstat") { struct stat st; r = ::lstat(o.path.c_str(), &st); }
	else if (o.op == "utime") { struct utimbuf ut; ut.actime = ut.modtime = (time_t) o.t; r = ::utime(o.path.c_str(), &ut); }
	else if (o.op == "open_read") { int fd = ::open(o.path.c_str(), O_RDONLY); r = fd < 0 ? -1 : 0; if (fd >= 0) ::close(fd); }
	err = r != 0 ? errno : 0;
	return r;
}

static int sim_op(SimFS &fs, const FsOp &o, int &err) {
	err = 0;
	int r = 0, ino;
	if (o.op == "mkdir") r = fs.sys_mkdir(o.path, o.mode, err);
	else if (o.op == "creat_excl" || o.op == "creat") {
		r = fs.sys_open(o.path, O_CREAT | O_WRONLY | (o.op == "creat_excl" ? O_EXCL : 0), 0600, ino, err);
		if (r == 0) { int e2; fs.sys_write(ino, 0, (const uint8_t *) o.arg.data(), o.arg.size(), e2); }
	} else if (o.op == "unlink") r = fs.sys_unlink(o.path, err);
	else if (o.op == "remove") r = fs.sys_remove(o.path, err);
	else if (o.op == "symlink") r = fs.sys_symlink(o.arg, o.path, err);
	else if (o.op == "chmod") r = fs.sys_chmod(o.path, o.mode, err);
	else if (o.op == "chown") r = fs.sys_chown(o.path, o.mode, o.mode, err);
	else if (o.op == "stat") { SimStat st; r = fs.sys_stat(o.path, st, err, true); }
	else if (o.op == "lstat") { SimStat st; r = fs.sys_stat(o.path, st, err, false); }
	else if (o.op == "utime") r = fs.sys_utime(o.path, o.t, err);
	else if (o.op == "open_read") r = fs.sys_open(o.path, O_RDONLY, 0, ino, err);
	if (r == 0) err = 0;
	return r;
}

int simfs_kernel_diff(int argc, char **argv) {
	uint64_t seed = argc > 3 ? strtoull(argv[3], nullptr, 0) : 1;
	int nseq = argc > 4 ? atoi(argv[4]) : 500;
	bool as_root = argc > 5 && std::string(argv[5]) == "root";
	int tuid = as_root ? 0 : 65534;
	if (geteuid() != 0) { fprintf(stderr, "simfs self-test needs root to drop to uid 65534\n"); return 2; }
	// a real scratch directory that uid 65534 can reach (the checkout may live below a directory only root may enter),
	// outside the checkout, created here and removed at the end
	std::string tmpl = std::string(getenv("TMPDIR") && *getenv("TMPDIR") ? getenv("TMPDIR") : "/tmp") + "/simfs-scratch-XXXXXX";
	std::vector<char> tb(tmpl.begin(), tmpl.end());
	tb.push_back(0);
	if (!mkdtemp(tb.data())) { fprintf(stderr, "cannot create a scratch directory from %s\n", tmpl.c_str()); return 2; }
	::chmod(tb.data(), 0755);
	std::string top = tb.data();
	std::string base = top + "/s";
	int bad = 0;
	uint64_t nops = 0, nerr = 0;
	std::map<std::string, int> errhist;
	int only = getenv("SIMFS_ONLY") ? atoi(getenv("SIMFS_ONLY")) : -1;
	for (int s = 0; s < nseq; ++s) {
		if (only >= 0 && s != only) continue;
		Rng rng(seed, 999, (uint64_t) s);
		std::vector<FsOp> ops = gen_ops(rng, as_root);
		rm_rf(base);
		::mkdir(base.c_str(), 0755);
		std::string b = base + "/b";
		::mkdir(b.c_str(), 0755);
		::mkdir((b + "/w").c_str(), 0755);
		::mkdir((b + "/w/cw").c_str(), 0755);
		if (::chown(b.c_str(), tuid, tuid) || ::chown((b + "/w").c_str(), tuid, tuid) || ::chown((b + "/w/cw").c_str(), tuid, tuid)) {}
		int pfd[2];
		if (pipe(pfd) != 0) return 2;
		pid_t pid = fork();
		if (pid == 0) {
			close(pfd[0]);
			if (!as_root) {
				if (setgroups(0, nullptr) != 0) {}
				if (setgid(65534) != 0 || setuid(65534) != 0) _exit(3);
			}
			umask(022);
			if (chdir((b + "/w/cw").c_str()) != 0) _exit(4);
			std::string outp;
			for (auto &o : ops) {
				int err;
				int r = real_op(o, err);
				outp += strf("%d %d\n", r, err);
			}
			if (write(pfd[1], outp.data(), outp.size()) < 0) {}
			_exit(0);
		}
		close(pfd[1]);
		std::string childout;
		char buf[4096];
		ssize_t k;
		while ((k = read(pfd[0], buf, sizeof buf)) > 0) childout.append(buf, (size_t) k);
		close(pfd[0]);
		int status;
		waitpid(pid, &status, 0);
		if (!WIFEXITED(status) || WEXITSTATUS(status) != 0) { fprintf(stderr, "child failed (%d)\n", status); return 2; }
		// the same on SimFS
		SimFS fs;
		fs.euid = tuid; fs.egid = tuid; fs.umask_ = 022;
		fs.add_dir("/b", 0755, tuid, tuid, 1);
		fs.add_dir("/b/w", 0755, tuid, tuid, 1);
		fs.add_dir("/b/w/cw", 0755, tuid, tuid, 1);
		int e;
		fs.sys_chdir("/b/w/cw", e);
		auto lines = split_ch(childout, '\n');
		bool seq_bad = false;
		for (size_t i = 0; i < ops.size(); ++i) {
			int err;
			int r = sim_op(fs, ops[i], err);
			int rr = 0, rerr = 0;
			if (i < lines.size()) sscanf(lines[i].c_str(), "%d %d", &rr, &rerr);
			++nops;
			if (rerr) { ++nerr; errhist[strerror(rerr)]++; }
			if (getenv("SIMFS_DEBUG")) fprintf(stderr, "  seq %d op %zu %s(%s,%s,%o): kernel %d/%d sim %d/%d\n", s, i, ops[i].op.c_str(), ops[i].path.c_str(), ops[i].arg.c_str(), ops[i].mode, rr, rerr, r, err);
			if ((r != 0) != (rr != 0) || err != rerr) {
				fprintf(stderr, "MISMATCH seq %d op %zu: %s(%s%s%s mode=%o): kernel %d errno=%d (%s), SimFS %d errno=%d (%s)\n", s, i,
				        ops[i].op.c_str(), ops[i].path.c_str(), ops[i].arg.empty() ? "" : ", ", ops[i].arg.c_str(), ops[i].mode, rr, rerr,
				        strerror(rerr), r, err, strerror(err));
				seq_bad = true;
				break;
			}
		}
		if (!seq_bad) {
			std::string real = dump_real(b, ""), sim = fs.dump(fs.lookup("/b"), false);
			if (real != sim) {
				fprintf(stderr, "TREE MISMATCH seq %d\n--- kernel\n%s--- SimFS\n%s", s, real.c_str(), sim.c_str());
				seq_bad = true;
			}
		}
		if (seq_bad) {
			fprintf(stderr, "  sequence:");
			for (auto &o : ops) fprintf(stderr, " %s(%s%s%s,%o)", o.op.c_str(), o.path.c_str(), o.arg.empty() ? "" : ",", o.arg.c_str(), o.mode);
			fprintf(stderr, "\n");
			if (++bad >= 5) break;
		}
	}
	rm_rf(base);
	rm_rf(top);
	printf("simfs-vs-kernel (as uid %d): %d sequences, %llu operations (%llu failing with an errno, both sides agreeing), %d mismatching sequences\n", tuid, nseq,
	       (unsigned long long) nops, (unsigned long long) nerr, bad);
	for (auto &e : errhist) printf("  errno %-28s %d\n", e.first.c_str(), e.second);
	return bad ? 1 : 0;
}

int selftest_main(int argc, char **argv) {
	if (argc >= 3 && std::string(argv[2]) == "simfs") return simfs_kernel_diff(argc, argv);
	fprintf(stderr, "usage: selftest simfs <seed> <sequences>\n");
	return 2;
}
