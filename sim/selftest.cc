// Self-tests of the machinery itself (stub fidelity etc.).
#include "framework.h"

int simfs_kernel_diff(int argc, char **argv);

int selftest_main(int argc, char **argv) {
	if (argc >= 3 && std::string(argv[2]) == "simfs") return simfs_kernel_diff(argc, argv);
	fprintf(stderr, "usage: selftest simfs <seed> <sequences>\n");
	return 2;
}

__attribute__((weak)) int simfs_kernel_diff(int, char **) { fprintf(stderr, "not built\n"); return 2; }
