#include "gen.h"
#include <algorithm>
#include <functional>
#include <set>

const char *ALL_METHODS[14] = {"-lz4-", "-lz5-", "-lzs-", "-lh0-", "-lh1-", "-lh4-", "-lh5-",
                               "-lh6-", "-lh7-", "-lhx-", "-lk7-", "-pm0-", "-pm1-", "-pm2-"};

std::string gen_name(Rng &rng, int maxlen) {
	static const char lower[] = "abcdefghijklmnopqrstuvwxyz";
	static const char other[] = "abcdefghijklmnopqrstuvwxyzABCDEFGHIJKLMNOPQRSTUVWXYZ0123456789._-+=,~ ";
	int n = 1 + (int) rng.below((uint64_t) maxlen);
	std::string s;
	for (int i = 0; i < n; ++i) s.push_back(other[rng.below(sizeof other - 1)]);
	// always one lower-case letter (no MS-DOS all-caps folding), never '.'/'..', no leading/trailing blank
	s[rng.below(s.size())] = lower[rng.below(26)];
	if (s == "." || s == "..") s = "d" + s;
	if (s[0] == ' ') s[0] = 'x';
	if (s.back() == ' ') s.back() = 'y';
	return s;
}

static Bytes ff_path(const std::string &path) {
	Bytes b(path.begin(), path.end());
	for (auto &c : b) if (c == '/') c = 0xff;
	return b;
}

void encode_names(Member &m, const std::string &path, const std::string &name_field) {
	// name_field may contain "name|target" for symlinks
	if (m.level == 0) {
		m.inname = to_bytes(path + name_field);
		return;
	}
	std::string dirpart = path, namepart = name_field;
	size_t bar = name_field.find('|');
	if (bar != std::string::npos) {
		// Unix LHA splits the joined string at its last '/'
		std::string full = path + name_field;
		size_t sl = full.rfind('/');
		if (sl == std::string::npos) { dirpart = ""; namepart = full; }
		else { dirpart = full.substr(0, sl + 1); namepart = full.substr(sl + 1); }
	}
	if (m.level == 1 && !namepart.empty() && namepart.size() < 200 && m.inname.empty() && m.attr != 0x21)
		m.inname = to_bytes(namepart);
	else if (!namepart.empty()) {
		ExtHdr e; e.type = 0x01; e.data = to_bytes(namepart); m.ext.push_back(e);
	}
	if (!dirpart.empty()) { ExtHdr e; e.type = 0x02; e.data = ff_path(dirpart); m.ext.push_back(e); }
}

void encode_unix_meta(Member &m, int perms, int uid, int gid, int64_t mtime, int tzoff, bool force_ext_time) {
	if (m.level == 0) {
		m.time = mtime ? dos_time_from_unix(mtime, tzoff) : 0;
		if (perms >= 0) {
			Bytes e;
			e.push_back('U');
			e.push_back(0);
			put32(e, (uint32_t) mtime);
			put16(e, (uint32_t) perms);
			put16(e, (uint32_t)(uid < 0 ? 0 : uid));
			put16(e, (uint32_t)(gid < 0 ? 0 : gid));
			m.l0ext = e;
		}
		return;
	}
	if (m.level == 1) m.time = mtime ? dos_time_from_unix(mtime, tzoff) : 0;
	else m.time = (uint32_t) mtime;
	if (perms >= 0) { ExtHdr e; e.type = 0x50; put16(e.data, (uint32_t) perms); m.ext.push_back(e); }
	if (uid >= 0) { ExtHdr e; e.type = 0x51; put16(e.data, (uint32_t) gid); put16(e.data, (uint32_t) uid); m.ext.push_back(e); }
	if ((m.level == 1 && perms >= 0 && mtime) || force_ext_time) {
		ExtHdr e; e.type = 0x54; put32(e.data, (uint32_t) mtime); m.ext.push_back(e);
	}
}

static int64_t gen_mtime(Rng &rng, bool dos_only) {
	int64_t t;
	switch (rng.below(8)) {
		case 0: t = 0; break;
		case 1: t = 315532800 + (int64_t) rng.below(86400 * 365); break;            // 1980
		case 2: t = 2147483647 - (int64_t) rng.below(1000); break;
		case 3: t = 2147483648LL + (int64_t) rng.below(1000000); break;
		case 4: t = 4294967295LL - (int64_t) rng.below(86400 * 300); break;
		default: t = 631152000 + (int64_t) rng.below(1300000000); break;             // 1990..2031
	}
	if (dos_only && t) {
		if (t < 315532800 + 86400) t = 315532800 + 86400 + (int64_t) rng.below(100000);
		t &= ~1LL;
	}
	return t;
}

static void finish_member(Rng &rng, Member &m, const std::string &path, const std::string &name_field,
                          int perms, int uid, int gid, const TreeOpts &o) {
	bool have_unix = perms >= 0;
	bool dos_only = (m.level <= 1) && !have_unix;
	if (m.level == 0 && have_unix) dos_only = false;
	int64_t mt = gen_mtime(rng, dos_only);
	// level 0/1 with a Unix time source: the Unix field wins; keep DOS field consistent but coarse
	m.gmtime = mt;
	encode_names(m, path, name_field);
	encode_unix_meta(m, perms, uid, gid, mt, o.tzoff, m.level >= 2 && rng.chance(1, 6) && mt != 0);
	if (m.level == 0 && have_unix && mt == 0) m.time = 0;
	if ((m.level >= 2 && rng.chance(1, 2)) || (m.level == 1 && rng.chance(1, 3))) {
		ExtHdr e; e.type = 0x00; e.data = {0, 0}; e.auto_crc = true;
		if (rng.chance(1, 4)) e.data.push_back(rng.byte());
		m.ext.insert(m.ext.begin() + (long) rng.below(m.ext.size() + 1), e);
	}
	if (m.level >= 1 && rng.chance(1, 10)) {
		// a name or path header repeated verbatim (legal; the later one replaces the earlier one)
		for (size_t i = 0; i < m.ext.size(); ++i)
			if (m.ext[i].type == 0x01 || m.ext[i].type == 0x02) { ExtHdr d = m.ext[i]; m.ext.push_back(d); break; }
	}
	if (m.level >= 1 && rng.chance(1, 5)) {
		// an extended header type the library does not know
		static const uint8_t unk[] = {0x39, 0x3f, 0x40, 0x7d, 0x7e, 0xff, 0x42};
		ExtHdr e; e.type = unk[rng.below(sizeof unk)];
		size_t n = rng.below(12);
		for (size_t i = 0; i < n; ++i) e.data.push_back(rng.byte());
		m.ext.insert(m.ext.begin() + (long) rng.below(m.ext.size() + 1), e);
	}
	m.gperms = perms >= 0 ? (perms & 07777) : -1;
	m.guid = uid;
	m.ggid = gid;
}

static uint8_t pick_os(Rng &rng, bool unix_meta) {
	if (unix_meta) return 'U';
	static const uint8_t oss[] = {'M', 'U', 'A', 'a', '2', 'w', 'W', 'J', 'C', 'F', 'H', 'T', 'R', '3', 0};
	return oss[rng.below(sizeof oss)];
}

Member gen_file(Rng &rng, int level, const std::string &path, const std::string &name, const TreeOpts &o) {
	Member m;
	m.level = level;
	m.kind = 'f';
	m.gpath = path;
	m.gname = name;
	std::string method = o.methods.empty() ? ALL_METHODS[rng.below(14)] : rng.pick(o.methods);
	bool unix_meta = o.perms && rng.chance(2, 3);
	m.os = pick_os(rng, unix_meta);
	if (rng.chance(1, 4)) m.attr = 0x21;   // level 1: name goes into a 0x01 header instead of the base header
	int64_t fixed_mtime = -1;
	// content
	bool literal = false;
	if (method == "-lh0-" || method == "-lz4-" || method == "-pm0-" || method == "-lz5-" || method == "-lzs-")
		literal = rng.chance(1, 2);
	if (o.mac && rng.chance(1, 2)) {
		// member as MacLHA writes it: os 'm', optionally a MacBinary envelope around the data fork
		m.os = 'm';
		unix_meta = false;
		if (level == 0) m.level = level = 1;
		if (rng.chance(1, 2)) {
			// real MacLHA payload: name and timestamp must match what the envelope says
			std::vector<const Payload *> macs;
			for (auto &p : corpus()) if (p.mac) macs.push_back(&p);
			const Payload *pl = rng.pick(macs);
			m.method = pl->method;
			m.payload = pl->id;
			m.cut = -1;
			m.mac = pl->mac == 1;
			m.gname = pl->name;
			fixed_mtime = pl->ts;
			method = "";
		} else {
			size_t n = rng.below(600);
			if (rng.chance(1, 4)) n = 128 * rng.below(6);   // fork lengths on the 128-byte padding boundary
			Bytes fork(n);
			for (auto &b : fork) b = rng.byte();
			int64_t mt = 631152000 + (int64_t) rng.below(1300000000);
			mt &= ~1LL;
			fixed_mtime = mt;
			bool env = rng.chance(2, 3);
			m.plain = env ? make_macbinary(name, fork, (uint32_t)(mt + (int64_t) rng.below(3600) - 1800)) : fork;
			m.mac = env;
			if (env && rng.chance(1, 6) && name.size() > 2) {
				// a MacBinary file of its own, archived under a longer name ("notes" inside "notes.bin"): the names differ, so this is
				// no envelope either
				std::string inner = name.substr(0, 1 + rng.below(name.size() - 1));
				m.plain = make_macbinary(inner, fork, (uint32_t) mt);
				m.mac = 0;
			} else if (env && rng.chance(1, 6) && name.size() < 50) {
				// looks like an envelope, but its name-length byte claims more characters than the member's name has:
				// not an envelope, the member is its 128-byte-aligned bytes as they are
				m.plain[1] = (uint8_t)(name.size() + 1 + rng.below(12));
				m.mac = 0;
			}
			method = rng.chance(1, 2) ? "-lh0-" : "-lz5-";
			m.method = method;
			m.data = method == "-lh0-" ? m.plain : encode_lz5(m.plain, &rng);
			method = "";
		}
	}
	if (!method.empty()) {
		m.method = method;
		if (literal && o.ghosts && rng.chance(1, 3)) {
			// contents that are themselves a complete small member (header + data): a reader that resumes parsing in the
			// middle of this member's data finds a plausible header there
			Member g;
			g.level = (int) rng.below(3);
			g.method = "-lh0-";
			g.inname = to_bytes("ghost.txt");
			if (g.level == 2) { ExtHdr e; e.type = 1; e.data = to_bytes("ghost.txt"); g.ext.push_back(e); g.inname.clear(); }
			g.plain = to_bytes("boo");
			g.data = g.plain;
			MemberLayout gl;
			Bytes gb;
			size_t pad = rng.below(40);
			for (size_t i = 0; i < pad; ++i) gb.push_back(rng.byte());
			build_member(g, gb, gl);
			m.plain = gb;
			if (method == "-lz5-") m.data = encode_lz5(m.plain, nullptr);
			else if (method == "-lzs-") m.data = encode_lzs(m.plain, nullptr);
			else m.data = m.plain;
		} else if (literal) {
			size_t n = rng.below((uint64_t) std::min(o.max_payload, 3000) + 1);
			if (rng.chance(1, 4)) n = rng.below(40);
			m.plain.resize(n);
			int style = (int) rng.below(3);
			for (size_t i = 0; i < n; ++i) m.plain[i] = style == 0 ? rng.byte() : style == 1 ? (uint8_t)("abcab \n"[rng.below(7)]) : (uint8_t) i;
			if (method == "-lz5-") m.data = encode_lz5(m.plain, &rng);
			else if (method == "-lzs-") m.data = encode_lzs(m.plain, &rng);
			else m.data = m.plain;
		} else {
			auto pls = payloads_for(method);
			if (pls.empty()) pls = payloads_for("-lh0-");
			const Payload *pl = rng.pick(pls);
			m.payload = pl->id;
			std::vector<uint32_t> ok;
			for (auto &c : pl->cuts) if ((int) c.first <= o.max_payload) ok.push_back(c.first);
			if (o.full_payload_sometimes && rng.chance(1, 25)) m.cut = -1;
			else if (ok.empty()) m.cut = 0;
			else m.cut = ok[rng.below(ok.size())];
			if (m.cut >= 0 && (size_t) m.cut == pl->plain.size()) m.cut = -1;
		}
	}
	if (m.method == "-lk7-") { m.level = level = 1; m.os = ' '; m.method = "-lh7-"; unix_meta = false; }
	// level-0 extended areas of PMarc members are comments, not Unix metadata
	if (m.level == 0 && m.method.compare(0, 3, "-pm") == 0) unix_meta = false;
	int perms = -1, uid = -1, gid = -1;
	if (unix_meta && m.os == 'U') {
		static const int fp[] = {0644, 0600, 0755, 0444, 0400, 0640, 0664, 0711, 0000, 0200, 01644, 02755, 04755};
		perms = 0100000 | fp[rng.below(sizeof fp / sizeof *fp)];
		if (rng.chance(2, 3)) { uid = (int) rng.below(3) == 0 ? (int) rng.below(65536) : 1000; gid = rng.chance(1, 2) ? 1000 : (int) rng.below(65536); }
	}
	finish_member(rng, m, path, m.gname, perms, uid, gid, o);
	if (fixed_mtime >= 0) {
		// MacBinary detection compares the envelope's time with the header's: pin the header time
		m.gmtime = fixed_mtime;
		if (m.level <= 1) m.time = dos_time_from_unix(fixed_mtime, o.tzoff); else m.time = (uint32_t) fixed_mtime;
		for (auto &e : m.ext) if (e.type == 0x54) { e.data.clear(); put32(e.data, (uint32_t) fixed_mtime); }
		if (m.level <= 1) {
			// the DOS field has 2-second granularity in local time; MacLHA payload timestamps are exact,
			// so carry the exact value in a Unix time header
			bool has = false;
			for (auto &e : m.ext) if (e.type == 0x54) has = true;
			if (!has && m.level == 1) { ExtHdr e; e.type = 0x54; put32(e.data, (uint32_t) fixed_mtime); m.ext.push_back(e); }
		}
	}
	if (o.bad_crc_sometimes && rng.chance(1, 6)) {
		Bytes plain = member_plain(m);
		m.crc = (crc16_bitwise(plain) ^ (1 + rng.below(65535))) & 0xffff;
	}
	return m;
}

Member gen_dir(Rng &rng, int level, const std::string &path, const TreeOpts &o) {
	Member m;
	m.level = level;
	m.kind = 'd';
	m.method = "-lhd-";
	m.gpath = path;
	m.gname = "";
	bool unix_meta = o.perms && rng.chance(3, 4);
	m.os = pick_os(rng, unix_meta);
	int perms = -1, uid = -1, gid = -1;
	if (unix_meta) {
		static const int easy[] = {0755, 0700, 0750, 0775, 0711};
		static const int hard[] = {0555, 0500, 0000, 0311, 0100, 0400, 01777, 02755};
		int p = (o.hard_perms && rng.chance(1, 3)) ? hard[rng.below(sizeof hard / sizeof *hard)] : easy[rng.below(sizeof easy / sizeof *easy)];
		perms = 040000 | p;
		if (rng.chance(1, 2)) { uid = 1000; gid = 1000; }
	}
	finish_member(rng, m, path, "", perms, uid, gid, o);
	return m;
}

Member gen_symlink(Rng &rng, int level, const std::string &path, const std::string &name,
                   const std::string &target, const TreeOpts &o) {
	Member m;
	m.level = level;
	m.kind = 'l';
	m.method = "-lhd-";
	m.gpath = path;
	m.gname = name;
	m.gtarget = target;
	m.os = 'U';
	int perms = 0120000 | 0777;
	int uid = rng.chance(1, 2) ? 1000 : -1, gid = uid >= 0 ? 1000 : -1;
	finish_member(rng, m, path, name + "|" + target, perms, uid, gid, o);
	return m;
}

void gen_tree(Rng &rng, const TreeOpts &o, std::vector<Member> &out) {
	int level_all = o.level >= 0 ? o.level : (o.uniform_level ? (int) rng.below(4) : -1);
	int budget = 1 + (int) rng.below((uint64_t) o.max_entries);
	std::set<std::string> used;
	auto sp = [&](const std::string &d) { return (o.abs_mix && !d.empty() && rng.chance(1, 3)) ? "/" + d : d; };
	std::function<void(const std::string &, int, bool)> fill = [&](const std::string &dir, int depth, bool top) {
		int kids = top ? budget : 1 + (int) rng.below(4);
		std::vector<std::string> siblings;
		for (int k = 0; k < kids && budget > 0; ++k) {
			int lvl = level_all >= 0 ? level_all : (int) rng.below(4);
			std::string nm;
			for (int tries = 0; tries < 20; ++tries) {
				nm = gen_name(rng, rng.chance(1, 10) ? 40 : 9);
				// siblings whose names are prefixes of each other ("a" and "ab") exercise prefix tests on paths
				if (!siblings.empty() && rng.chance(1, 4)) nm = siblings[rng.below(siblings.size())] + gen_name(rng, 2);
				if (!used.count(dir + nm) && (dir + nm).size() < 180) break;
				nm.clear();
			}
			if (nm.empty()) continue;
			used.insert(dir + nm);
			siblings.push_back(nm);
			int what = (int) rng.below(10);
			if (o.dirs && depth < o.max_depth && what < 3) {
				--budget;
				bool explicit_entry = o.explicit_dirs_only || rng.chance(3, 4);
				if (explicit_entry) out.push_back(gen_dir(rng, lvl, sp(dir + nm + "/"), o));
				else ++budget;   // implicit parent: costs nothing, but needs at least one child
				size_t before = out.size();
				fill(dir + nm + "/", depth + 1, false);
				if (!explicit_entry && out.size() == before && budget > 0) {
					--budget;
					out.push_back(gen_file(rng, lvl, sp(dir + nm + "/"), gen_name(rng), o));
				}
			} else if (o.symlinks && what == 3) {
				--budget;
				std::string target;
				int tk = (int) rng.below(o.dangerous_links ? 6 : 3);
				switch (tk) {
					case 0: target = gen_name(rng); break;
					case 1: target = gen_name(rng) + "/" + gen_name(rng); break;
					case 2: target = "./" + gen_name(rng); break;
					case 3: target = "/" + gen_name(rng) + "/" + gen_name(rng); break;
					case 4: target = "../" + gen_name(rng); break;
					default: target = gen_name(rng) + "/../../" + gen_name(rng); break;
				}
				out.push_back(gen_symlink(rng, lvl, sp(dir), nm, target, o));
			} else {
				--budget;
				Member f = gen_file(rng, lvl, sp(dir), nm, o);
				if (f.gname != nm) {
					// MacLHA payloads bring their own name
					if (used.count(dir + f.gname)) continue;
					used.insert(dir + f.gname);
				}
				out.push_back(f);
			}
		}
	};
	fill("", 0, true);
	if (out.empty()) out.push_back(gen_file(rng, level_all >= 0 ? level_all : 0, "", gen_name(rng), o));
	for (auto &m : out) if (m.level >= 1 && rng.chance(1, 6)) add_noise_ext(rng, m);
}

// Extended headers that say nothing about what the oracles compare: Windows time stamps, user and group names, types
// the library does not know, and known types too short to be used (ignored by design).  They must not change anything.
void add_noise_ext(Rng &rng, Member &m) {
	int n = 1 + (int) rng.below(3);
	for (int i = 0; i < n; ++i) {
		ExtHdr e;
		switch (rng.below(9)) {
			case 0: e.type = 0x41; e.data.resize(24); break;
			case 1: e.type = 0x52; e.data = to_bytes(gen_name(rng, 8)); break;
			case 2: e.type = 0x53; e.data = to_bytes(gen_name(rng, 8)); break;
			case 3: e.type = 0x40; e.data.resize(2); break;
			case 4: e.type = (uint8_t)(0x7a + rng.below(5)); e.data.resize(rng.below(12)); break;
			case 5: e.type = 0x41; e.data.resize(rng.below(24)); break;             // too short: ignored
			case 6: e.type = 0x50; e.data.resize(rng.below(2)); break;              // too short: ignored
			case 7: e.type = 0x54; e.data.resize(rng.below(4)); break;              // too short: ignored
			default: e.type = 0x51; e.data.resize(rng.below(4)); break;             // too short: ignored
		}
		if (e.type != 0x52 && e.type != 0x53) for (auto &b : e.data) b = rng.byte();
		m.ext.insert(m.ext.begin() + (long) rng.below(m.ext.size() + 1), e);
	}
}

// ------------------------------------------------------------------ stored-byte faults

std::string gen_patch(Rng &rng, const Plan &p, const BuiltArchive &a, Patch &q, bool header_bias) {
	q = Patch();
	if (a.layout.empty()) {
		q.member = -1;
		size_t n = a.bytes.size() - a.prefix_len;
		q.off = (uint32_t) rng.below(n ? n : 1);
		q.op = '=';
		q.val = {rng.byte()};
		return "D-BYTE";
	}
	size_t mi = rng.below(a.layout.size());
	const MemberLayout &L = a.layout[mi];
	q.member = (int) mi;
	size_t total = L.hdr_len + L.data_len;
	int kind = (int) rng.below(10);
	auto in_header = [&]() { return (uint32_t) rng.below(L.hdr_len ? L.hdr_len : 1); };
	auto anywhere = [&]() {
		if (header_bias && rng.chance(3, 4)) return in_header();
		return (uint32_t) rng.below(total ? total : 1);
	};
	if (kind <= 2) {            // D-BURST: 1..16 flipped bits
		q.off = anywhere();
		int bits = 1 + (int) rng.below(16);
		int start = (int) rng.below(8);
		Bytes v((size_t)(start + bits + 7) / 8, 0);
		for (int b = 0; b < bits; ++b) {
			bool flip = b == 0 || b == bits - 1 || rng.chance(1, 2);
			if (flip) v[(size_t)(start + b) / 8] |= (uint8_t)(0x80 >> ((start + b) % 8));
		}
		q.op = 'x';
		q.val = v;
		return "D-BURST";
	}
	if (kind <= 4) {            // D-BYTE
		q.off = anywhere();
		q.op = '=';
		q.val = {rng.byte()};
		return "D-BYTE";
	}
	if (kind <= 7) {            // D-FIELD: a length/size/level/method field to a boundary value
		std::vector<std::string> names;
		for (auto &f : L.fields)
			if (f.first == "hdrlen" || f.first == "packed" || f.first == "orig" || f.first == "level" || f.first == "namelen"
			    || f.first == "method" || f.first == "os" || f.first.compare(0, 4, "next") == 0 || f.first == "csum" || f.first == "crc")
				names.push_back(f.first);
		std::string fn = rng.pick(names);
		Field f = L.fields.at(fn);
		q.off = (uint32_t) f.off;
		q.op = '=';
		uint64_t cur = 0;
		for (size_t i = 0; i < f.len && i < 8; ++i) cur |= (uint64_t) a.bytes[L.start + f.off + i] << (8 * i);
		uint64_t maxv = f.len >= 8 ? ~0ULL : ((1ULL << (8 * f.len)) - 1);
		uint64_t nv;
		switch (rng.below(11)) {
			case 9: nv = rng.below(8); break;            // small absolute values: sizes that equal their own length field
			case 10: nv = cur + 3 + rng.below(3); break;
			case 0: nv = 0; break;
			case 1: nv = maxv; break;
			case 2: nv = cur + 1; break;
			case 3: nv = cur - 1; break;
			case 4: nv = cur + 2; break;
			case 5: nv = maxv >> 1; break;
			case 6: nv = cur ^ (1ULL << rng.below(8 * f.len)); break;
			case 7: nv = 1ULL << 20; break;
			default: nv = rng.next(); break;
		}
		nv &= maxv;
		if (fn == "method") {
			static const char *ms[] = {"-lh0-", "-lhd-", "-lh5-", "-lzs-", "-pm1-", "-lh9-", "-lhx-", "-lz4-"};
			std::string s = ms[rng.below(8)];
			q.val = to_bytes(s);
		} else {
			for (size_t i = 0; i < f.len; ++i) q.val.push_back((uint8_t)(nv >> (8 * i)));
		}
		return "D-FIELD";
	}
	// D-SPLICE: insert garbage / duplicate / zeros, or delete a region
	q.off = anywhere();
	size_t n = 1 + rng.below(rng.chance(1, 4) ? 300 : 24);
	if (rng.chance(1, 3)) { q.op = 'd'; q.len = (uint32_t) n; return "D-SPLICE"; }
	q.op = 'i';
	int style = (int) rng.below(3);
	for (size_t i = 0; i < n; ++i) {
		if (style == 0) q.val.push_back(rng.byte());
		else if (style == 1) q.val.push_back(0);
		else q.val.push_back(a.bytes[L.start + (q.off + i) % total]);
	}
	return "D-SPLICE";
}

// ------------------------------------------------------------------ histories

void gen_history(Rng &rng, Task &t, size_t nmembers, bool with_extract, int max_ops) {
	// At most one decode operation (read sequence | check | extract) per entry and
	// one extract per entry, as the properties' side conditions require.
	size_t rounds = nmembers + 2 + rng.below(4) + (with_extract ? nmembers : 0);
	int style = (int) rng.below(5);   // 0 mixed, 1 list only, 2 decode everything, 3 partial reads, 4 extract all
	for (size_t i = 0; i < rounds && (int) t.ops.size() < max_ops; ++i) {
		Op nx; nx.kind = "next";
		t.ops.push_back(nx);
		if (rng.chance(1, 6)) { Op f; f.kind = "isfake"; t.ops.push_back(f); }
		int what;
		switch (style) {
			case 1: what = 0; break;
			case 2: what = 1 + (int) rng.below(2); break;
			case 3: what = 3; break;
			case 4: what = with_extract ? 4 : 1; break;
			default: what = (int) rng.below(with_extract ? 5 : 4); break;
		}
		if (what == 1) {
			// read everything in random pieces
			int n = 1 + (int) rng.below(6);
			for (int k = 0; k < n; ++k) { Op r; r.kind = "read"; r.arg = rng.chance(1, 8) ? 0 : (int64_t) rng.below(rng.chance(1, 2) ? 64 : 5000); t.ops.push_back(r); }
			Op r; r.kind = "readall"; r.arg = 1 + (int64_t) rng.below(4096); t.ops.push_back(r);
			if (rng.chance(1, 4)) { Op r2; r2.kind = "read"; r2.arg = (int64_t) rng.below(100); t.ops.push_back(r2); }
		} else if (what == 2) {
			Op c; c.kind = "check"; c.mon = rng.chance(1, 2); t.ops.push_back(c);
		} else if (what == 3) {
			int n = 1 + (int) rng.below(3);
			for (int k = 0; k < n; ++k) { Op r; r.kind = "read"; r.arg = (int64_t) rng.below(rng.chance(1, 2) ? 20 : 700); t.ops.push_back(r); }
		} else if (what == 4) {
			Op e; e.kind = "extract"; e.mon = rng.chance(1, 2); e.arg = rng.chance(1, 3);   // arg=1: NULL filename (header path)
			t.ops.push_back(e);
		}
	}
}
