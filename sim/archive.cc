#include "archive.h"
#include <algorithm>
#include <cstdlib>
#include <fstream>
#include <sstream>

#ifndef VERIF_DIR
#define VERIF_DIR "/verif"
#endif

// ------------------------------------------------------------------ corpus

static std::vector<Payload> g_corpus;
static bool g_corpus_loaded = false;

static Bytes read_all(const std::string &path) {
	std::ifstream f(path, std::ios::binary);
	return Bytes((std::istreambuf_iterator<char>(f)), std::istreambuf_iterator<char>());
}

const std::vector<Payload> &corpus() {
	if (g_corpus_loaded) return g_corpus;
	g_corpus_loaded = true;
	std::string dir = std::string(VERIF_DIR) + "/corpus/";
	Bytes bin = read_all(dir + "payloads.bin");
	std::ifstream idx(dir + "payloads.idx");
	std::string line;
	while (std::getline(idx, line)) {
		auto w = split_ws(line);
		if (w.size() < 2 || w[0] != "P") continue;
		Payload p;
		p.id = w[1];
		size_t coff = 0, clen = 0, poff = 0, plen = 0;
		for (size_t i = 2; i < w.size(); ++i) {
			size_t e = w[i].find('=');
			if (e == std::string::npos) continue;
			std::string k = w[i].substr(0, e), v = w[i].substr(e + 1);
			if (k == "method") p.method = hex_str(v);
			else if (k == "coff") coff = strtoul(v.c_str(), nullptr, 0);
			else if (k == "clen") clen = strtoul(v.c_str(), nullptr, 0);
			else if (k == "poff") poff = strtoul(v.c_str(), nullptr, 0);
			else if (k == "plen") plen = strtoul(v.c_str(), nullptr, 0);
			else if (k == "mac") p.mac = atoi(v.c_str());
			else if (k == "name") p.name = hex_str(v);
			else if (k == "ts") p.ts = (uint32_t) strtoul(v.c_str(), nullptr, 0);
			else if (k == "cuts") {
				for (auto &c : split_ch(v, ',')) {
					auto f = split_ch(c, ':');
					if (f.size() == 2)
						p.cuts.push_back({(uint32_t) strtoul(f[0].c_str(), nullptr, 0),
						                  (uint32_t) strtoul(f[1].c_str(), nullptr, 0)});
				}
			}
		}
		if (coff + clen > bin.size() || poff + plen > bin.size()) continue;
		p.comp.assign(bin.begin() + coff, bin.begin() + coff + clen);
		p.plain.assign(bin.begin() + poff, bin.begin() + poff + plen);
		g_corpus.push_back(p);
	}
	return g_corpus;
}

const Payload *find_payload(const std::string &id) {
	for (auto &p : corpus()) if (p.id == id) return &p;
	return nullptr;
}

std::vector<const Payload *> payloads_for(const std::string &method) {
	std::vector<const Payload *> v;
	for (auto &p : corpus()) if (p.method == method && !p.mac) v.push_back(&p);
	return v;
}

uint32_t Payload::need(uint32_t nout) const {
	uint32_t best = (uint32_t) comp.size();
	for (auto &c : cuts) if (c.first >= nout && c.second < best) best = c.second;
	return best;
}

// ------------------------------------------------------------------ members

Bytes member_data(const Member &m) {
	if (m.payload.empty()) return m.data;
	const Payload *p = find_payload(m.payload);
	if (!p) return Bytes();
	uint32_t n = m.cut < 0 ? (uint32_t) p->plain.size() : (uint32_t) m.cut;
	uint32_t take = m.take >= 0 ? (uint32_t) m.take : p->need(n);
	if (take > p->comp.size()) take = (uint32_t) p->comp.size();
	return Bytes(p->comp.begin(), p->comp.begin() + take);
}

Bytes member_plain(const Member &m) {
	if (m.payload.empty()) return m.plain;
	const Payload *p = find_payload(m.payload);
	if (!p) return Bytes();
	uint32_t n = m.cut < 0 ? (uint32_t) p->plain.size() : (uint32_t) m.cut;
	if (n > p->plain.size()) n = (uint32_t) p->plain.size();
	return Bytes(p->plain.begin(), p->plain.begin() + n);
}

static uint32_t be32(const Bytes &b, size_t off) {
	return ((uint32_t) b[off] << 24) | (b[off + 1] << 16) | (b[off + 2] << 8) | b[off + 3];
}

Bytes member_contents(const Member &m) {
	Bytes plain = member_plain(m);
	if (!m.mac || plain.size() < 128) return plain;
	uint32_t dlen = be32(plain, 0x53), rlen = be32(plain, 0x57);
	uint32_t n = dlen ? dlen : rlen;
	if (128 + (size_t) n > plain.size()) n = (uint32_t)(plain.size() - 128);
	return Bytes(plain.begin() + 128, plain.begin() + 128 + n);
}

Bytes make_macbinary(const std::string &name, const Bytes &fork, uint32_t unix_mtime) {
	Bytes b(128, 0);
	b[1] = (uint8_t) name.size();
	memcpy(&b[2], name.data(), std::min<size_t>(name.size(), 63));
	uint32_t n = (uint32_t) fork.size();
	b[0x53] = n >> 24; b[0x54] = n >> 16; b[0x55] = n >> 8; b[0x56] = n;
	uint32_t mt = unix_mtime + 2082844800u;
	b[0x5f] = mt >> 24; b[0x60] = mt >> 16; b[0x61] = mt >> 8; b[0x62] = mt;
	append(b, fork);
	while (b.size() % 128) b.push_back(0);
	return b;
}

void build_member(const Member &m, Bytes &out, MemberLayout &lay) {
	Bytes data = member_data(m);
	Bytes plain = member_plain(m);
	uint32_t orig = m.orig >= 0 ? (uint32_t) m.orig : (uint32_t) plain.size();
	uint32_t crc = m.crc >= 0 ? (uint32_t) m.crc : crc16_bitwise(plain);
	std::string method = m.method;
	method.resize(5, ' ');
	Bytes h;
	auto &F = lay.fields;
	lay.start = out.size();
	size_t extsum = 0;
	if (m.level == 0 || m.level == 1) {
		h.push_back(0);                 // length, fixed below
		h.push_back(0);                 // checksum
		append(h, method);              // 2..7
		if (m.level == 1)
			for (auto &e : m.ext) extsum += 3 + e.data.size();
		put32(h, m.packed >= 0 ? (uint32_t) m.packed : (uint32_t)(data.size() + extsum));
		put32(h, orig);
		put32(h, m.time);
		h.push_back(m.attr);
		h.push_back((uint8_t) m.level);
		h.push_back((uint8_t) m.inname.size());
		append(h, m.inname);
		F["name"] = {22, m.inname.size()};
		F["crc"] = {h.size(), 2};
		put16(h, crc);
		if (m.level == 0) {
			F["l0ext"] = {h.size(), m.l0ext.size()};
			append(h, m.l0ext);
		} else {
			F["os"] = {h.size(), 1};
			h.push_back(m.os);
			F["next0"] = {h.size(), 2};
			put16(h, m.ext.empty() ? 0 : (uint32_t)(3 + m.ext[0].data.size()));
		}
		size_t base_len = h.size();
		h[0] = (uint8_t)(m.hdrlen >= 0 ? m.hdrlen : base_len - 2);
		F["hdrlen"] = {0, 1};
		F["csum"] = {1, 1};
		F["namelen"] = {21, 1};
		std::vector<size_t> crcpos;
		if (m.level == 1) {
			for (size_t i = 0; i < m.ext.size(); ++i) {
				auto &e = m.ext[i];
				F[strf("ext%zu", i)] = {h.size(), e.data.size() + 3};
				h.push_back(e.type);
				if (e.auto_crc && e.data.size() >= 2) crcpos.push_back(h.size());
				append(h, e.data);
				F[strf("next%zu", i + 1)] = {h.size(), 2};
				put16(h, i + 1 < m.ext.size() ? (uint32_t)(3 + m.ext[i + 1].data.size()) : 0);
			}
		}
		// checksum over the base header only
		unsigned sum = 0;
		for (size_t i = 2; i < base_len; ++i) sum += h[i];
		h[1] = (uint8_t)(m.csum >= 0 ? m.csum : (sum & 0xff));
		if (!crcpos.empty()) {
			for (size_t p : crcpos) { h[p] = 0; h[p + 1] = 0; }
			uint16_t c = crc16_bitwise(0, h.data(), h.size());
			for (size_t p : crcpos) { h[p] = c & 0xff; h[p + 1] = c >> 8; }
		}
	} else {
		int fs = m.level == 3 ? 4 : 2;
		if (m.level == 3) put16(h, m.wordsz >= 0 ? (uint32_t) m.wordsz : 4);
		else put16(h, 0);               // total length, fixed below
		append(h, method);
		put32(h, m.packed >= 0 ? (uint32_t) m.packed : (uint32_t) data.size());
		put32(h, orig);
		put32(h, m.time);
		h.push_back(m.attr);
		h.push_back((uint8_t) m.level);
		F["crc"] = {h.size(), 2};
		put16(h, crc);
		F["os"] = {h.size(), 1};
		h.push_back(m.os);
		if (m.level == 3) { F["hdrlen"] = {h.size(), 4}; put32(h, 0); }
		else F["hdrlen"] = {0, 2};
		auto putsz = [&](uint32_t v) { if (fs == 4) put32(h, v); else put16(h, v); };
		F["next0"] = {h.size(), (size_t) fs};
		putsz(m.ext.empty() ? 0 : (uint32_t)(1 + fs + m.ext[0].data.size()));
		std::vector<size_t> crcpos;
		for (size_t i = 0; i < m.ext.size(); ++i) {
			auto &e = m.ext[i];
			F[strf("ext%zu", i)] = {h.size(), e.data.size() + 1 + fs};
			h.push_back(e.type);
			if (e.auto_crc && e.data.size() >= 2) crcpos.push_back(h.size());
			append(h, e.data);
			F[strf("next%zu", i + 1)] = {h.size(), (size_t) fs};
			putsz(i + 1 < m.ext.size() ? (uint32_t)(1 + fs + m.ext[i + 1].data.size()) : 0);
		}
		uint32_t total = m.hdrlen >= 0 ? (uint32_t) m.hdrlen : (uint32_t) h.size();
		if (m.level == 3) set32(h, 24, total); else set16(h, 0, total);
		if (!crcpos.empty()) {
			for (size_t p : crcpos) { h[p] = 0; h[p + 1] = 0; }
			uint16_t c = crc16_bitwise(0, h.data(), h.size());
			for (size_t p : crcpos) { h[p] = c & 0xff; h[p + 1] = c >> 8; }
		}
	}
	F["method"] = {2, 5};
	F["packed"] = {7, 4};
	F["orig"] = {11, 4};
	F["time"] = {15, 4};
	F["attr"] = {19, 1};
	F["level"] = {20, 1};
	lay.hdr_len = h.size();
	lay.data_len = data.size();
	F["data"] = {h.size(), data.size()};
	append(out, h);
	append(out, data);
}

BuiltArchive build_archive(const Plan &p, bool apply_patches) {
	BuiltArchive a;
	a.bytes = p.prefix;
	a.prefix_len = p.prefix.size();
	if (!p.raw.empty()) append(a.bytes, p.raw);
	for (auto &m : p.members) {
		MemberLayout lay;
		build_member(m, a.bytes, lay);
		a.layout.push_back(lay);
	}
	if (!apply_patches) return a;
	// resolve to absolute offsets on the unpatched layout, then apply in order
	struct Abs { size_t off; const Patch *p; };
	std::vector<Abs> abs;
	for (auto &q : p.patches) {
		size_t base = a.prefix_len;
		if (q.member >= 0) {
			if ((size_t) q.member >= a.layout.size()) continue;
			base = a.layout[q.member].start;
		}
		abs.push_back({base + q.off, &q});
	}
	for (size_t i = 0; i < abs.size(); ++i) {
		size_t off = abs[i].off;
		const Patch &q = *abs[i].p;
		long shift = 0;
		if (q.op == 'x' || q.op == '=') {
			for (size_t k = 0; k < q.val.size(); ++k) {
				if (off + k >= a.bytes.size()) break;
				if (q.op == 'x') a.bytes[off + k] ^= q.val[k]; else a.bytes[off + k] = q.val[k];
			}
		} else if (q.op == 'i') {
			if (off > a.bytes.size()) off = a.bytes.size();
			a.bytes.insert(a.bytes.begin() + off, q.val.begin(), q.val.end());
			shift = (long) q.val.size();
		} else if (q.op == 'd') {
			if (off < a.bytes.size()) {
				size_t n = std::min<size_t>(q.len, a.bytes.size() - off);
				a.bytes.erase(a.bytes.begin() + off, a.bytes.begin() + off + n);
				shift = -(long) n;
			}
		}
		if (shift)
			for (size_t j = i + 1; j < abs.size(); ++j)
				if (abs[j].off > off) abs[j].off = (size_t) std::max<long>((long) off, (long) abs[j].off + shift);
	}
	return a;
}

// ------------------------------------------------------------------ encoders

// -lz5-: flag byte (bit set = literal), literals, or 2-byte copy commands
// (12-bit ring position, 4-bit length - 3). The ring starts pre-filled and
// writing starts at 4096-18.  With an rng, copies from the ring are used where
// a match of >= 3 bytes exists in the already written text.
Bytes encode_lz5(const Bytes &plain, Rng *rng) {
	Bytes out;
	size_t i = 0, n = plain.size();
	while (i < n) {
		size_t flagpos = out.size();
		out.push_back(0);
		uint8_t flags = 0;
		for (int bit = 0; bit < 8 && i < n; ++bit) {
			size_t best = 0, bestsrc = 0;
			if (rng && i >= 3 && rng->chance(1, 2)) {
				size_t lo = i > 4000 ? i - 4000 : 0;
				for (int tries = 0; tries < 8; ++tries) {
					size_t src = lo + rng->below(i - lo);
					size_t l = 0;
					while (l < 18 && i + l < n && src + l < i && plain[src + l] == plain[i + l]) ++l;
					if (l > best) { best = l; bestsrc = src; }
				}
			}
			if (best >= 3) {
				unsigned pos = (unsigned)((4096 - 18 + bestsrc) % 4096);
				out.push_back(pos & 0xff);
				out.push_back((uint8_t)(((pos >> 4) & 0xf0) | (best - 3)));
				i += best;
			} else {
				flags |= (uint8_t)(1 << bit);
				out.push_back(plain[i++]);
			}
		}
		out[flagpos] = flags;
	}
	return out;
}

// -lzs-: MSB-first bit stream; 1 + 8-bit literal, or 0 + 11-bit ring position
// + 4-bit (length - 2).  Ring of 2048 spaces, writing starts at 2048-17.
Bytes encode_lzs(const Bytes &plain, Rng *rng) {
	Bytes out;
	uint32_t acc = 0;
	int nb = 0;
	auto put = [&](uint32_t v, int bits) {
		for (int b = bits - 1; b >= 0; --b) {
			acc = (acc << 1) | ((v >> b) & 1);
			if (++nb == 8) { out.push_back((uint8_t) acc); acc = 0; nb = 0; }
		}
	};
	size_t i = 0, n = plain.size();
	while (i < n) {
		size_t best = 0, bestsrc = 0;
		if (rng && i >= 2 && rng->chance(1, 2)) {
			size_t lo = i > 2000 ? i - 2000 : 0;
			for (int tries = 0; tries < 8; ++tries) {
				size_t src = lo + rng->below(i - lo);
				size_t l = 0;
				while (l < 17 && i + l < n && src + l < i && plain[src + l] == plain[i + l]) ++l;
				if (l > best) { best = l; bestsrc = src; }
			}
		}
		if (best >= 2) {
			put(0, 1);
			put((uint32_t)((2048 - 17 + bestsrc) % 2048), 11);
			put((uint32_t)(best - 2), 4);
			i += best;
		} else {
			put(1, 1);
			put(plain[i++], 8);
		}
	}
	if (nb) { acc <<= (8 - nb); out.push_back((uint8_t) acc); }
	return out;
}

// ------------------------------------------------------------------ time

static int64_t days_from_civil(int64_t y, unsigned m, unsigned d) {
	y -= m <= 2;
	const int64_t era = (y >= 0 ? y : y - 399) / 400;
	const unsigned yoe = (unsigned)(y - era * 400);
	const unsigned doy = (153 * (m + (m > 2 ? -3 : 9)) + 2) / 5 + d - 1;
	const unsigned doe = yoe * 365 + yoe / 4 - yoe / 100 + doy;
	return era * 146097 + (int64_t) doe - 719468;
}

void civil_from_unix(int64_t t, int &Y, int &M, int &D, int &h, int &mi, int &s) {
	int64_t days = t >= 0 ? t / 86400 : -((-t + 86399) / 86400);
	int64_t rem = t - days * 86400;
	h = (int)(rem / 3600); mi = (int)((rem % 3600) / 60); s = (int)(rem % 60);
	int64_t z = days + 719468;
	const int64_t era = (z >= 0 ? z : z - 146096) / 146097;
	const unsigned doe = (unsigned)(z - era * 146097);
	const unsigned yoe = (doe - doe / 1460 + doe / 36524 - doe / 146096) / 365;
	const int64_t y = (int64_t) yoe + era * 400;
	const unsigned doy = doe - (365 * yoe + yoe / 4 - yoe / 100);
	const unsigned mp = (5 * doy + 2) / 153;
	D = (int)(doy - (153 * mp + 2) / 5 + 1);
	M = (int)(mp < 10 ? mp + 3 : mp - 9);
	Y = (int)(y + (M <= 2));
	(void) days_from_civil;
}

uint32_t dos_time_from_unix(int64_t t, int off) {
	int Y, M, D, h, mi, s;
	civil_from_unix(t + off, Y, M, D, h, mi, s);
	if (Y < 1980) return 0;
	return ((uint32_t)(Y - 1980) << 25) | ((uint32_t) M << 21) | ((uint32_t) D << 16)
	     | ((uint32_t) h << 11) | ((uint32_t) mi << 5) | ((uint32_t) s >> 1);
}

// POSIX TZ strings of the form NAME[+-]h[:mm] mean local = UTC - offset.
int tz_offset_of(const std::string &tz) {
	size_t i = 0;
	while (i < tz.size() && ((tz[i] >= 'A' && tz[i] <= 'Z') || (tz[i] >= 'a' && tz[i] <= 'z'))) ++i;
	if (i >= tz.size()) return 0;
	int sign = 1;
	if (tz[i] == '-') { sign = -1; ++i; } else if (tz[i] == '+') ++i;
	int hh = 0, mm = 0;
	while (i < tz.size() && tz[i] >= '0' && tz[i] <= '9') hh = hh * 10 + (tz[i++] - '0');
	if (i < tz.size() && tz[i] == ':') {
		++i;
		while (i < tz.size() && tz[i] >= '0' && tz[i] <= '9') mm = mm * 10 + (tz[i++] - '0');
	}
	return -sign * (hh * 3600 + mm * 60);
}
