"""Self-tests of the simulation machinery: ./check selftest <what>

  simfs [seed] [sequences]     SimFS against the kernel (as uid 65534 and as root)
  determinism [runs]           every property: the same run indices executed in separate processes, with different
                               partitions (1, 7 and 16 workers) and in reverse order, must give identical plan and trace hashes
  regressions                  replay every regressions/*.plan on the current tree (all must hold)
  realcli [plans]              simulator against reality: C06 tool plans run on SimFS and by the plain lha on a real directory
  reach [runs]                 coverage build: which functions named in each property's anchors the sampled plans execute
  mutants [ids...]             apply each seeded/<id>/patch.diff and mutants/*.patch to a scratch copy of /repo and run the
                               tagged checks against it (VERIF_REPO); every one must be reported as a VIOLATION
"""
import glob
import json
import os
import shutil
import subprocess
import sys
import time

VERIF = os.path.dirname(os.path.dirname(os.path.abspath(__file__)))
sys.path.insert(0, os.path.join(VERIF, "tools"))
import build as builder  # noqa: E402

PROPS = ["C06", "C07", "C08", "C09", "C10", "C11", "C12", "C13", "C14", "C15", "C16", "C18", "C19", "C20"]


def sh(cmd, **kw):
    return subprocess.run(cmd, capture_output=True, text=True, errors="replace", **kw)


def simfs(args):
    exe = builder.build("asan")
    seed = args[0] if args else "1"
    n = args[1] if len(args) > 1 else "2000"
    rc = 0
    for mode in ([], ["root"]):
        r = sh([exe, "selftest", "simfs", seed, n] + mode)
        sys.stdout.write(r.stdout)
        sys.stderr.write(r.stderr[-3000:])
        rc |= r.returncode
    return rc


def determinism(args):
    exe = builder.build("asan")
    n = int(args[0]) if args else 400
    props = args[1:] if len(args) > 1 else PROPS
    bad = 0
    total = 0
    for prop in props:
        # multi-evaluation properties are expensive per run: fewer indices
        count = n if prop not in ("C07", "C12", "C13", "C20") else max(8, n // 40)
        ref = {}
        configs = [(1, False), (7, False), (16, True), (3, True)]
        for workers, reverse in configs:
            procs = []
            env = dict(os.environ)
            if reverse:
                env["TRACE_REVERSE"] = "1"
            for w in range(workers):
                procs.append(subprocess.Popen([exe, "trace", prop, "quick", "1", "0", str(count), str(workers), str(w)],
                                              stdout=subprocess.PIPE, stderr=subprocess.DEVNULL, text=True, env=env))
            got = {}
            for p in procs:
                out, _ = p.communicate()
                for line in out.splitlines():
                    f = line.split()
                    if len(f) == 4:
                        got[int(f[0])] = (f[1], f[2], f[3])
            if not ref:
                ref = got
            for i, v in got.items():
                total += 1
                if ref.get(i) != v:
                    bad += 1
                    if bad < 10:
                        print("NONDETERMINISM %s run %d: %s vs %s (workers=%d reverse=%s)" % (prop, i, ref.get(i), v, workers, reverse))
            if len(got) != len(ref):
                bad += 1
                print("NONDETERMINISM %s: %d runs vs %d" % (prop, len(got), len(ref)))
        print("%s: %d run indices x %d configurations identical" % (prop, len(ref), len(configs)) if not bad else "%s: MISMATCHES" % prop)
    print("determinism: %d comparisons, %d mismatches" % (total, bad))
    return 1 if bad else 0


def regressions(args):
    exe = builder.build("asan")
    rc = 0
    # plans of recorded (unrepaired) findings must still show exactly that finding; all others are repaired defects and must hold
    open_findings = {}
    for line in open(os.path.join(VERIF, "known_findings.txt")):
        if line.startswith("finding:"):
            kv = dict(w.split("=", 1) for w in line[8:].split() if "=" in w)
            if "plan" in kv:
                open_findings[kv["plan"]] = kv.get("sig", "")
    for path in sorted(glob.glob(os.path.join(VERIF, "regressions", "*.plan"))):
        r = sh([exe, "replay", path])
        name = os.path.basename(path)
        if name in open_findings:
            ok = r.returncode == 1 and ("sig=%s " % open_findings[name]) in r.stdout
            print("%-60s %s" % (name, "still shows the recorded finding" if ok else "DOES NOT show the recorded finding any more: rc=%d %s" % (r.returncode, r.stdout.strip()[:200])))
        else:
            ok = r.returncode == 0
            print("%-60s %s" % (name, "holds" if ok else "FAILS rc=%d %s" % (r.returncode, r.stdout.strip()[:200])))
        if not ok:
            rc = 1
    return rc


def scratch_copy(tag):
    d = "/tmp/verif-mutant-%s-%d" % (tag, os.getpid())
    shutil.rmtree(d, ignore_errors=True)
    sh(["git", "-C", "/repo", "worktree", "prune"])
    r = sh(["git", "-C", "/repo", "worktree", "add", "--detach", "-f", d, "HEAD"])
    if r.returncode != 0:
        raise SystemExit("cannot create scratch worktree: " + r.stderr)
    return d


def drop_scratch(d):
    sh(["git", "-C", "/repo", "worktree", "remove", "--force", d])
    shutil.rmtree(d, ignore_errors=True)
    # build output of that scratch copy
    import hashlib
    tag = hashlib.sha256((os.path.abspath(d) + "\0").encode()).hexdigest()[:8]
    for v in ("asan", "plain", "tsan", "cov"):
        shutil.rmtree(os.path.join(VERIF, "build", "%s-%s" % (v, tag)), ignore_errors=True)


def mutants(args):
    entries = []
    for meta in sorted(glob.glob(os.path.join(VERIF, "seeded", "*", "meta.json"))):
        m = json.load(open(meta))
        entries.append((os.path.basename(os.path.dirname(meta)), os.path.join(os.path.dirname(meta), "patch.diff"), m.get("detected_by", [m["property"]]), m))
    part = [a for a in args if a.startswith("--part=")]
    args = [a for a in args if not a.startswith("--part=")]
    if args:
        entries = [e for e in entries if e[0] in args]
    if part:
        # --part=i/n: every n-th change starting with the i-th (to run n invocations side by side)
        i, n = (int(x) for x in part[0][7:].split("/"))
        entries = entries[i::n]
    rc = 0
    results = []
    for name, patch, checks, meta in entries:
        d = scratch_copy(name)
        try:
            r = sh(["git", "-C", d, "apply", patch])
            if r.returncode != 0:
                print("%s: patch does not apply: %s" % (name, r.stderr.strip()[:300]))
                rc = 1
                continue
            env = dict(os.environ, VERIF_REPO=d)
            caught = []
            for prop in checks:
                t0 = time.time()
                r = sh([os.path.join(VERIF, "check"), prop, "quick"], env=env, cwd=VERIF)
                if r.returncode not in (0, 1):
                    # the check itself did not run (build failure of the changed tree, harness error): neither caught nor quiet; once more
                    print("    %s: check exited %d, running it again\n%s" % (prop, r.returncode, (r.stdout + r.stderr)[-400:]))
                    r = sh([os.path.join(VERIF, "check"), prop, "quick"], env=env, cwd=VERIF)
                hit = r.returncode == 1 and ("VIOLATION property=%s" % prop) in r.stdout
                first = [l for l in r.stdout.splitlines() if l.startswith("  clause=")]
                caught.append((prop, hit, first[0][:160] if first else "", time.time() - t0))
            ok = any(h for _, h, _, _ in caught)
            if not ok and not meta.get("expected_missed"):
                rc = 1
            results.append((name, ok, caught))
            print("%-28s %s" % (name, "CAUGHT" if ok else ("missed (expected: %s)" % meta["expected_missed"] if meta.get("expected_missed") else "MISSED")))
            for prop, hit, first, dt in caught:
                print("    %s %s %.0fs %s" % (prop, "violation" if hit else "quiet", dt, first))
        finally:
            drop_scratch(d)
    # record what was observed (merged with earlier results for mutants not run this time; several invocations may run side by side)
    import fcntl
    path = os.path.join(VERIF, "seeded", "RESULTS.json")
    with open(os.path.join(VERIF, "build", "results.lock"), "w") as lock:
        fcntl.flock(lock, fcntl.LOCK_EX)
        old = json.load(open(path)) if os.path.exists(path) else {}
        for name, ok, caught in results:
            old[name] = {"caught": ok, "checks": [{"property": p, "violation": h, "first_clause": f, "seconds": round(dt)} for p, h, f, dt in caught]}
        json.dump(old, open(path, "w"), indent=1, sort_keys=True)
        write_detection_table(old)
    return rc


def write_detection_table(results):
    lines = ["# Seeded changes and which checks catch them", "",
             "Generated by `./check selftest mutants` (tools/selftests.py) from seeded/*/meta.json and the observed results; every",
             "change compiles, passes the repository's 10 tests and comes with a demonstration (see each directory).", "",
             "| change | breaks | origin | needs | checks run (quick tier) | result |", "|---|---|---|---|---|---|"]
    for meta in sorted(glob.glob(os.path.join(VERIF, "seeded", "*", "meta.json"))):
        name = os.path.basename(os.path.dirname(meta))
        m = json.load(open(meta))
        r = results.get(name)
        if not r:
            continue
        if not r["caught"] and m.get("expected_missed"):
            r = dict(r, note="expected: " + m["expected_missed"])
        checks = ", ".join("%s: %s" % (c["property"], (c["first_clause"].split("clause=")[1].split(" ")[0] if c["violation"] and "clause=" in c["first_clause"] else ("violation" if c["violation"] else "quiet"))) for c in r["checks"])
        origin = "sub-agent" if "sub-agent" in m.get("origin", "") else "own"
        needs = m.get("needs", "")
        if needs == "see README.md":
            needs = m.get("summary", "see README.md")
        lines.append("| %s | %s | %s | %s | %s | %s |" % (name, m["property"], origin, needs.replace("|", "/")[:160], checks, "caught" if r["caught"] else ("not caught - " + r["note"][:300] if r.get("note") else "MISSED")))
    open(os.path.join(VERIF, "seeded", "DETECTION.md"), "w").write("\n".join(lines) + "\n")


def reach(args):
    """Coverage-instrumented build (gcc --coverage) replays a sample of each property's quick-tier plans and reports which of the
    functions named in the property's anchors.mechanism were executed. Written to reach/REACH.json and reach/REACH.md."""
    import re
    exe = builder.build("cov")
    objdir = os.path.dirname(exe)
    props = {}
    for line in open(os.path.join(VERIF, "properties.jsonl")):
        d = json.loads(line)
        names = set()
        for m in d["anchors"]["mechanism"]:
            for tok in re.findall(r"[A-Za-z_][A-Za-z0-9_]{3,}", m.get("where", "")):
                names.add(tok)
        props[d["id"]] = names
    n = int(args[0]) if args else 300
    out = {}
    os.makedirs(os.path.join(VERIF, "reach"), exist_ok=True)
    for prop in PROPS:
        for f in glob.glob(os.path.join(objdir, "*.gcda")):
            os.remove(f)
        count = n if prop not in ("C07", "C12", "C13", "C20") else max(8, n // 8)
        # one process: concurrent processes merging into the same .gcda files lose counts
        subprocess.run([exe, "trace", prop, "quick", "1", "0", str(count)], stdout=subprocess.DEVNULL, stderr=subprocess.DEVNULL)
        executed, known = set(), set()
        tmp = os.path.join(objdir, "gcov-tmp")
        shutil.rmtree(tmp, ignore_errors=True)
        os.makedirs(tmp)
        gcdas = [f for f in glob.glob(os.path.join(objdir, "*.gcda")) if os.path.basename(f).startswith(("lib_", "src_"))]
        for g in gcdas:
            # one gcov call per object: in one batch call, templates #included by several translation units are misreported
            r = sh(["gcov", "-f", "-o", objdir, g], cwd=tmp)
            cur = None
            for line in r.stdout.splitlines():
                if line.startswith("Function '"):
                    cur = line.split("'")[1]
                    known.add(cur)
                elif line.startswith("Lines executed:") and cur:
                    pct = float(line.split(":")[1].split("%")[0])
                    if pct > 0:
                        executed.add(cur)
                    cur = None
        shutil.rmtree(tmp, ignore_errors=True)
        anchored = sorted(x for x in props[prop] if x in known)
        hit = [x for x in anchored if x in executed]
        miss = [x for x in anchored if x not in executed]
        out[prop] = {"runs_replayed": count, "anchor_functions": len(anchored), "reached": len(hit), "not_reached": miss,
                     "library_and_tool_functions_executed": len(executed), "of": len(known)}
        print("%s: %d of %d anchored functions reached (%d of %d functions overall)%s" % (
            prop, len(hit), len(anchored), len(executed), len(known), "; not reached: " + ", ".join(miss) if miss else ""))
    json.dump(out, open(os.path.join(VERIF, "reach", "REACH.json"), "w"), indent=1, sort_keys=True)
    with open(os.path.join(VERIF, "reach", "REACH.md"), "w") as f:
        f.write("# Reach of the quick-tier plans (gcc --coverage build, `./check selftest reach`)\n\n| property | runs replayed | anchored functions reached | not reached | functions executed overall |\n|---|---|---|---|---|\n")
        for prop in PROPS:
            o = out[prop]
            f.write("| %s | %d | %d / %d | %s | %d / %d |\n" % (prop, o["runs_replayed"], o["reached"], o["anchor_functions"], ", ".join(o["not_reached"]) or "-",
                                                            o["library_and_tool_functions_executed"], o["of"]))
    return 0


def realcli(args):
    """Simulator against reality, whole runs: sampled C06 tool plans are executed in-process on SimFS (by simlha) and by the
    plain, unwrapped lha binary on a real scratch directory (as root or as uid 1000, same umask, TZ, initial tree, stdin);
    the resulting trees must agree on type, contents, link target, permission bits and every recorded mtime."""
    import zlib
    exe = builder.build("asan")
    lha = builder.build_plain_cli()
    n = int(args[0]) if args else 300
    base = os.path.join(VERIF, "build", "realcli-%d" % os.getpid())
    bad = done = skipped = 0

    def crc16(data):
        crc = 0
        for b in data:
            crc ^= b
            for _ in range(8):
                crc = (crc >> 1) ^ 0xA001 if crc & 1 else crc >> 1
        return crc

    for i in range(n):
        shutil.rmtree(base, ignore_errors=True)
        os.makedirs(base)
        r = sh([exe, "c06dump", "1", str(i), base])
        if r.returncode != 0:
            skipped += 1
            continue
        spec = {"argv": [], "fs": [], "tree": {}}
        for line in open(os.path.join(base, "spec.txt")):
            f = line.split()
            if f[0] == "argv":
                spec["argv"].append(bytes.fromhex(f[1]))
            elif f[0] == "fs":
                spec["fs"].append((f[1], bytes.fromhex(f[2]), int(f[3]), int(f[4]), b"" if f[5] == "-" else bytes.fromhex(f[5]), b"" if f[6] == "-" else bytes.fromhex(f[6])))
            elif f[0] == "tree":
                spec["tree"][bytes.fromhex(f[1])] = (f[2], int(f[3]), int(f[4]), f[5], b"" if f[6] == "-" else bytes.fromhex(f[6]))
            elif f[0] == "stdin":
                spec["stdin"] = b"" if f[1] == "-" else bytes.fromhex(f[1])
            elif f[0] == "stdout":
                spec["stdout"] = b"" if f[1] == "-" else bytes.fromhex(f[1])
            elif f[0] == "status":
                spec["status"] = (int(f[1]), int(f[2]))
            else:
                spec[f[0]] = f[1]
        euid = int(spec["euid"])
        rootdir = os.path.join(base, "w", "x", "y", "root")
        os.makedirs(rootdir)
        shutil.copy(os.path.join(base, "archive.lzh"), os.path.join(base, "w", "a.lzh"))
        os.chmod(base, 0o755)
        for d in (os.path.join(base, "w", "x", "y"), rootdir):
            os.chown(d, euid, euid)
        for typ, path, mode, mtime, data, target in spec["fs"]:
            real = base.encode() + path
            os.makedirs(os.path.dirname(real), exist_ok=True)
            if typ == "d":
                os.makedirs(real, exist_ok=True)
                os.chmod(real, mode)
            elif typ == "f":
                open(real, "wb").write(data)
                os.chmod(real, mode)
            else:
                # an absolute target inside the simulated tree is relocated together with the tree
                os.symlink(base.encode() + target if target.startswith(b"/w/") else target, real)
            os.lchown(real, euid, euid)
            # parents created on the way belong to the user as well
            par = os.path.dirname(real)
            while par.startswith(rootdir.encode()) and par != rootdir.encode():
                os.chown(par, euid, euid)
                par = os.path.dirname(par)
        # the mode of the extraction directory only now (a set-group-ID bit would be handed to the directories created above)
        os.chmod(rootdir, int(spec.get("rootmode", "493")))
        # time stamps last, deepest first (creating a child re-stamps its directory)
        for typ, path, mode, mtime, data, target in sorted(spec["fs"], key=lambda e: -len(e[1])):
            if typ != "l":
                os.utime(base.encode() + path, (mtime, mtime))
        argv = [lha.encode()] + spec["argv"][1:]
        from_stdin = argv[2] == b"-"
        if not from_stdin:
            argv[2] = os.path.join(base, "w", "a.lzh").encode()
        stdin_data = open(os.path.join(base, "archive.lzh"), "rb").read() if from_stdin else spec["stdin"]

        def pre():
            os.umask(int(spec["umask"]))
            if euid:
                os.setgroups([])
                os.setgid(euid)
                os.setuid(euid)
        env = dict(os.environ, TZ=spec["tz"])
        try:
            pr = subprocess.run(argv, input=stdin_data, cwd=rootdir, env=env, preexec_fn=pre, capture_output=True, timeout=60)
        except subprocess.TimeoutExpired:
            print("run %d: real tool timed out" % i)
            bad += 1
            continue
        # real tree
        real_tree = {}
        for dp, dns, fns in os.walk(rootdir.encode()):
            for nm in dns + fns:
                full = os.path.join(dp, nm)
                rel = os.path.relpath(full, rootdir.encode())
                st = os.lstat(full)
                import stat as S
                if S.S_ISLNK(st.st_mode):
                    tg = os.readlink(full)
                    if tg.startswith(base.encode() + b"/w/"):
                        tg = tg[len(base.encode()):]
                    real_tree[rel] = ("l", 0, int(st.st_mtime), "0:0", tg)
                elif S.S_ISDIR(st.st_mode):
                    real_tree[rel] = ("d", st.st_mode & 0o7777, int(st.st_mtime), "0:0", b"")
                else:
                    data = open(full, "rb").read()
                    real_tree[rel] = ("f", st.st_mode & 0o7777, int(st.st_mtime), "%d:%d" % (len(data), crc16(data)), b"")
            # symlinks to directories are listed under dns by os.walk; do not descend (followlinks is off)
        done += 1
        problems = []
        sim = spec["tree"]
        cmdletter = spec["argv"][1].lstrip(b"-")[:1]
        for rel in sorted(set(sim) | set(real_tree)):
            a, b = sim.get(rel), real_tree.get(rel)
            if a is None or b is None:
                problems.append("%r: %s" % (rel, "only in the simulated tree" if b is None else "only in the real tree"))
                continue
            if a[0] != b[0]:
                problems.append("%r: type sim %s real %s" % (rel, a[0], b[0]))
                continue
            if a[0] == "f" and a[3] != b[3]:
                problems.append("%r: contents sim %s real %s" % (rel, a[3], b[3]))
            if a[0] == "l" and a[4] != b[4]:
                problems.append("%r: target sim %r real %r" % (rel, a[4], b[4]))
            if a[0] != "l" and (a[1] & 0o7777) != b[1]:
                problems.append("%r: mode sim %o real %o" % (rel, a[1] & 0o7777, b[1]))
            # mtimes stamped by the simulated clock (1.5e9 .. +1e6) have no real counterpart; everything else was set explicitly
            # (1000000000 is SimFS's constant for parents of the initial tree that the plan does not describe)
            if a[0] != "l" and not (1500000000 <= a[2] <= 1501000000) and a[2] != 1000000000 and a[2] != b[2]:
                problems.append("%r: mtime sim %d real %d" % (rel, a[2], b[2]))
        rc_real = pr.returncode if pr.returncode >= 0 else 256 + pr.returncode
        st_sim = spec["status"][0] & 0xff
        if rc_real != st_sim:
            problems.append("exit status sim %d real %d" % (st_sim, rc_real))
        if cmdletter == b"p" and spec["stdout"] != pr.stdout:
            problems.append("stdout of p differs (%d vs %d bytes)" % (len(spec["stdout"]), len(pr.stdout)))
        if problems:
            bad += 1
            if bad <= 5:
                print("run %d (%s, euid %d): simulated and real runs disagree:" % (i, b" ".join(spec["argv"][1:]).decode("latin1"), euid))
                for pl in problems[:8]:
                    print("    " + pl)
        # make everything removable again
        subprocess.run(["chmod", "-R", "u+rwx", base], capture_output=True)
    shutil.rmtree(base, ignore_errors=True)
    print("realcli: %d plans compared (%d skipped: library-policy plans, absolute w=, injected system-call failures), %d disagreements" % (done, skipped, bad))
    return 1 if bad else 0


def main(args):
    if not args:
        print(__doc__)
        return 2
    what, rest = args[0], args[1:]
    return {"simfs": simfs, "determinism": determinism, "regressions": regressions, "mutants": mutants, "reach": reach, "realcli": realcli}.get(what, lambda a: 2)(rest)
