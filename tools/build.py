#!/usr/bin/env python3
"""Build the simulator against the current working tree of the repository.

Every check calls build(variant) first.  Objects are cached per source file,
keyed by a hash of the file, of every header in the repository's lib/ and src/
(or every header in /verif/sim for harness files) and of the flags, so an edit
under /repo always leads to a rebuild of what it touches and an unchanged tree
costs a few milliseconds.
"""
import fcntl
import hashlib
import os
import subprocess
import sys
from concurrent.futures import ThreadPoolExecutor

VERIF = os.path.dirname(os.path.dirname(os.path.abspath(__file__)))
SIM = os.path.join(VERIF, "sim")

LIB_SKIP = {"bit_stream_reader.c", "tree_decode.c", "lh_new_decoder.c",
            "pma_common.c", "lha_arch_win32.c"}

WRAPS = ["malloc", "calloc", "realloc", "free", "strdup", "vasprintf",
         "fopen", "fdopen", "fclose", "fileno", "fstat", "fread",
         "mkdir", "open", "close", "unlink", "remove", "symlink", "chmod",
         "chown", "fchmod", "fchown", "utime", "stat", "lstat", "rmdir",
         "time", "exit", "abort"]

UBSAN = "bounds,null,pointer-overflow,vla-bound,unreachable,return,nonnull-attribute"

VARIANTS = {
    # name: (cc, cxx, cflags for everything, extra link flags, use wrappers)
    "asan": ("gcc", "g++",
             ["-O1", "-g", "-fno-omit-frame-pointer", "-fsanitize=address",
              "-fsanitize=" + UBSAN, "-fno-sanitize-recover=all"],
             ["-fsanitize=address", "-fsanitize=" + UBSAN], True),
    "plain": ("gcc", "g++", ["-O1", "-g"], [], True),
    "cov": ("gcc", "g++", ["-O0", "-g", "--coverage", "-DSIM_COV"], ["--coverage"], True),
    "tsan": ("clang", "clang++",
             ["-O1", "-g", "-fsanitize=thread", "-DSIM_TSAN"],
             ["-fsanitize=thread"], False),
}

FALLBACK_CONFIG_H = """\
#define PACKAGE_NAME "Lhasa"
#define PACKAGE_VERSION "0.4.0"
#define PACKAGE_STRING "Lhasa 0.4.0"
"""


def sha(*parts):
    h = hashlib.sha256()
    for p in parts:
        h.update(p if isinstance(p, bytes) else p.encode())
        h.update(b"\0")
    return h.hexdigest()


def read(path):
    with open(path, "rb") as f:
        return f.read()


def headers_digest(dirs):
    h = hashlib.sha256()
    for d in dirs:
        if not os.path.isdir(d):
            continue
        for name in sorted(os.listdir(d)):
            # lib/*.c templates are #included by other .c files: treat as headers
            if name.endswith((".h", ".c", ".hh")):
                h.update(name.encode())
                h.update(read(os.path.join(d, name)))
    return h.hexdigest()


def repo_tree_hash(repo):
    return headers_digest([os.path.join(repo, "lib"), os.path.join(repo, "lib", "public"),
                           os.path.join(repo, "src")])[:16]


def build(variant="asan", repo=None, quiet=True):
    repo = repo or os.environ.get("VERIF_REPO", "/repo")
    repo = os.path.abspath(repo)
    cc, cxx, cflags, ldflags, wrappers = VARIANTS[variant]
    tag = variant if repo == "/repo" else variant + "-" + sha(repo)[:8]
    out = os.path.join(VERIF, "build", tag)
    os.makedirs(out, exist_ok=True)
    lock = open(os.path.join(out, ".lock"), "w")
    fcntl.flock(lock, fcntl.LOCK_EX)
    try:
        return _build_locked(variant, repo, out, cc, cxx, cflags, ldflags, wrappers, quiet)
    finally:
        fcntl.flock(lock, fcntl.LOCK_UN)
        lock.close()


def _build_locked(variant, repo, out, cc, cxx, cflags, ldflags, wrappers, quiet):
    inc = ["-I" + repo, "-I" + os.path.join(repo, "lib", "public"), "-I" + os.path.join(repo, "lib")]
    if not os.path.exists(os.path.join(repo, "config.h")):
        fb = os.path.join(out, "fallback")
        os.makedirs(fb, exist_ok=True)
        with open(os.path.join(fb, "config.h"), "w") as f:
            f.write(FALLBACK_CONFIG_H)
        inc.append("-I" + fb)
    repo_hdr = headers_digest([os.path.join(repo, "lib"), os.path.join(repo, "lib", "public"),
                               os.path.join(repo, "src"), repo])
    sim_hdr = headers_digest([SIM])

    jobs = []   # (src, obj, cmd, key)
    libdir = os.path.join(repo, "lib")
    for name in sorted(os.listdir(libdir)):
        if name.endswith(".c") and name not in LIB_SKIP:
            src = os.path.join(libdir, name)
            obj = os.path.join(out, "lib_" + name[:-2] + ".o")
            cmd = [cc, "-std=gnu99"] + cflags + inc + ["-c", src, "-o", obj]
            jobs.append((src, obj, cmd, repo_hdr))
    srcdir = os.path.join(repo, "src")
    for name in sorted(os.listdir(srcdir)):
        if name.endswith(".c"):
            src = os.path.join(srcdir, name)
            obj = os.path.join(out, "src_" + name[:-2] + ".o")
            extra = ["-Dmain=lha_cli_main"] if name == "main.c" else []
            cmd = [cc, "-std=gnu99"] + cflags + extra + inc + ["-c", src, "-o", obj]
            jobs.append((src, obj, cmd, repo_hdr))
    for name in sorted(os.listdir(SIM)):
        if name.endswith(".cc"):
            if variant == "tsan" and name not in TSAN_SOURCES:
                continue
            if variant != "tsan" and name in TSAN_ONLY:
                continue
            src = os.path.join(SIM, name)
            obj = os.path.join(out, "sim_" + name[:-3] + ".o")
            cmd = [cxx, "-std=gnu++17", "-Wall", "-Wno-unused-function"] + cflags + inc + \
                  ["-I" + SIM, "-DVERIF_DIR=\"%s\"" % VERIF, "-c", src, "-o", obj]
            jobs.append((src, obj, cmd, sim_hdr + repo_hdr))

    def compile_one(job):
        src, obj, cmd, hdr = job
        key = sha(read(src), hdr, " ".join(cmd))
        stamp = obj + ".key"
        if os.path.exists(obj) and os.path.exists(stamp) and read(stamp).decode() == key:
            return False, None
        r = subprocess.run(cmd, capture_output=True, text=True)
        if r.returncode != 0:
            return True, "COMPILE FAILED: %s\n%s" % (" ".join(cmd), r.stderr)
        with open(stamp, "w") as f:
            f.write(key)
        if r.stderr.strip() and not quiet:
            sys.stderr.write(r.stderr)
        return True, None

    with ThreadPoolExecutor(max_workers=16) as ex:
        results = list(ex.map(compile_one, jobs))
    errs = [e for _, e in results if e]
    if errs:
        sys.stderr.write("\n".join(errs) + "\n")
        raise SystemExit(2)
    rebuilt = any(ch for ch, _ in results)

    exe = os.path.join(out, "simlha")
    objs = [j[1] for j in jobs]
    # drop objects of sources that no longer exist
    if rebuilt or not os.path.exists(exe):
        link = [cxx] + ldflags + objs + ["-o", exe, "-lpthread"]
        if wrappers:
            link.append("-Wl," + ",".join("--wrap=" + w for w in WRAPS))
        r = subprocess.run(link, capture_output=True, text=True)
        if r.returncode != 0:
            sys.stderr.write("LINK FAILED: %s\n%s\n" % (" ".join(link), r.stderr))
            raise SystemExit(2)
    return exe


def build_plain_cli(repo=None):
    """The real tool, uninstrumented and without any wrapper (for the simulator-vs-reality cross-check)."""
    repo = os.path.abspath(repo or os.environ.get("VERIF_REPO", "/repo"))
    out = os.path.join(VERIF, "build", "plaincli")
    os.makedirs(out, exist_ok=True)
    inc = ["-I" + repo, "-I" + os.path.join(repo, "lib", "public"), "-I" + os.path.join(repo, "lib")]
    if not os.path.exists(os.path.join(repo, "config.h")):
        with open(os.path.join(out, "config.h"), "w") as f:
            f.write(FALLBACK_CONFIG_H)
        inc.append("-I" + out)
    srcs = [os.path.join(repo, "lib", n) for n in sorted(os.listdir(os.path.join(repo, "lib"))) if n.endswith(".c") and n not in LIB_SKIP]
    srcs += [os.path.join(repo, "src", n) for n in sorted(os.listdir(os.path.join(repo, "src"))) if n.endswith(".c")]
    exe = os.path.join(out, "lha")
    key = sha(*[read(s) for s in srcs])
    stamp = exe + ".key"
    if os.path.exists(exe) and os.path.exists(stamp) and read(stamp).decode() == key:
        return exe
    r = subprocess.run(["gcc", "-std=gnu99", "-O1", "-g"] + inc + srcs + ["-o", exe], capture_output=True, text=True)
    if r.returncode != 0:
        sys.stderr.write(r.stderr)
        raise SystemExit(2)
    with open(stamp, "w") as f:
        f.write(key)
    return exe


# Sources that make up the thin threaded TSan driver (no libc wrappers).
TSAN_SOURCES = {"util.cc", "plan.cc", "archive.cc", "gen.cc", "tsan_main.cc"}
TSAN_ONLY = {"tsan_main.cc"}

if __name__ == "__main__":
    v = sys.argv[1] if len(sys.argv) > 1 else "asan"
    print(build(v, quiet=False))
