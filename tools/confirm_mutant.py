#!/usr/bin/env python3
"""confirm_mutant.py <mutant dir> <name> <property>: independent confirmation of a seeded change in a fresh scratch worktree:
patch applies, tree builds, demo passes on the clean tree, demo fails with the change, existing test suite still passes.
On success copies the mutant into /verif/seeded/<name>/ with meta.json."""
import json
import os
import shutil
import subprocess
import sys

VERIF = os.path.dirname(os.path.dirname(os.path.abspath(__file__)))


def sh(cmd, cwd=None, timeout=1800):
    return subprocess.run(cmd, cwd=cwd, shell=isinstance(cmd, str), capture_output=True, text=True, errors="replace", timeout=timeout)


def main():
    src, name, prop = sys.argv[1], sys.argv[2], sys.argv[3]
    d = "/tmp/confirm-%s" % name
    sh(["git", "-C", "/repo", "worktree", "remove", "--force", d])
    shutil.rmtree(d, ignore_errors=True)
    r = sh([os.path.join(VERIF, "tools", "mkscratch.sh"), d])
    if r.returncode != 0:
        print(name, "SCRATCH FAILED", r.stderr[-300:])
        return 2
    res = {}
    try:
        mdir = os.path.join(d, os.path.basename(src.rstrip("/")))
        shutil.copytree(src, mdir)
        for junk in ("work", "logs"):
            pass
        r = sh("make -j8", cwd=d)
        res["build_clean"] = r.returncode == 0
        r = sh("sh %s/demo.sh" % os.path.basename(mdir), cwd=d)
        res["demo_clean_rc"] = r.returncode
        r = sh(["git", "apply", os.path.join(mdir, "patch.diff")], cwd=d)
        res["applies"] = r.returncode == 0
        r = sh("make -j8", cwd=d)
        res["build_mutant"] = r.returncode == 0
        r = sh("sh %s/demo.sh" % os.path.basename(mdir), cwd=d)
        res["demo_mutant_rc"] = r.returncode
        res["demo_mutant_tail"] = (r.stdout + r.stderr)[-400:]
        # the suite's scripts share /tmp/lhasa-test.* names: give every confirmation its own TMPDIR
        os.makedirs(d + "/.tmp", exist_ok=True)
        r = sh("TMPDIR=%s/.tmp make -j4 check" % d, cwd=d, timeout=3600)
        out = r.stdout + r.stderr
        res["suite_pass"] = "# PASS:  10" in out and "# FAIL:  0" in out
        ok = (res["build_clean"] and res["applies"] and res["build_mutant"] and res["demo_clean_rc"] == 0
              and res["demo_mutant_rc"] != 0 and res["suite_pass"])
        res["confirmed"] = ok
        print(name, "CONFIRMED" if ok else "NOT CONFIRMED", json.dumps({k: v for k, v in res.items() if k != "demo_mutant_tail"}))
        if ok:
            dest = os.path.join(VERIF, "seeded", name)
            shutil.rmtree(dest, ignore_errors=True)
            os.makedirs(dest)
            for f in os.listdir(src):
                p = os.path.join(src, f)
                if os.path.isfile(p) and os.path.getsize(p) < 200000 and not f.endswith((".log", ".o")):
                    shutil.copy(p, os.path.join(dest, f))
            readme = open(os.path.join(src, "README.md")).read() if os.path.exists(os.path.join(src, "README.md")) else ""
            meta = {"property": prop, "detected_by": [prop], "origin": "independent sub-agent given only the property text and a scratch worktree",
                    "needs": "see README.md", "confirmed": {"patch_applies": True, "builds": True, "existing_suite": "10/10 pass with the change",
                                                           "demo_on_clean_tree": "exit 0", "demo_with_change": "exit %d" % res["demo_mutant_rc"]},
                    "ran": "tools/confirm_mutant.py in a fresh scratch worktree (mkscratch.sh): make; demo; git apply; make; demo; make check"}
            json.dump(meta, open(os.path.join(dest, "meta.json"), "w"), indent=1)
        return 0 if ok else 1
    finally:
        sh(["git", "-C", "/repo", "worktree", "remove", "--force", d])
        shutil.rmtree(d, ignore_errors=True)


if __name__ == "__main__":
    sys.exit(main())
