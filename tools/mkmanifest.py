#!/usr/bin/env python3
"""Writes /verif/MANIFEST.json from the table below (single source of truth)."""
import json
import os

VERIF = os.path.dirname(os.path.dirname(os.path.abspath(__file__)))

TECH = "deterministic simulation with fault injection: "

CHECKS = {
    # id: (category, technique, level text, level note, design ref)
    "C09": ("exploration",
            TECH + "seeded search over corrupted/truncated compressed streams, declared lengths, read schedules and "
            "end-of-data behaviours on the decoder's callback seam; sanitizers as invariant monitors",
            "Exploration: every run feeds one seeded byte string (real encoder output with stored-byte faults, cuts, "
            "random or constant bytes) to one of the 14 decoders through the simulated compressed-data source, via the "
            "decoder API and via the per-type init/read callbacks on exact-size heap blocks; structured block/table headers with boundary "
            "values in count and single-code fields for the static-Huffman family and -pm2-; ASan/UBSan silence and "
            "'read returns at most k' are the oracle; one run in five has the source answer at most 1-3 bytes per request (S-SHORT), one in five keeps a "
            "second decoder of the same method alive and releases it with its source half-way; a small share of the runs enumerates, for one real "
            "stream, every request index at which the source answers once with nothing (S-GAP). Sampling of a corruption neighbourhood, not a proof.",
            "Trusted: ASan + UBSan(bounds,null,pointer-overflow,...) see every invalid access except overflows that stay "
            "inside one allocation and are not statically bounded arrays.",
            "DESIGN.md 7 C09"),
    "C14": ("exploration",
            TECH + "seeded search over read-size histories, monitor attach points, stream faults and end-of-data "
            "behaviours on the decoder's callback seam, checked against a single-read reference run and a bitwise CRC-16",
            "Exploration: every run is one (method, stream with faults, declared length, end-of-data flavour, read "
            "history, monitor attach point); the history run must agree with a single maximal read of the same "
            "stream, get_length/get_crc are compared with an independent bitwise CRC-16/ARC after every call, the "
            "monitor sequence is checked; unanswered request bytes are poisoned differently in the two runs so use of "
            "bytes the source never returned shows up deterministically; one run in four keeps a companion decoder of the same method on another "
            "stream alive, reads it in between and releases it at a seeded point (each must yield what it yields alone); the monitor may be attached "
            "a second time; declared lengths around 2^32 with the first blocks read only (block arithmetic).",
            "Trusted: the reference run is the same library (history-invariance oracle, no plaintext ground truth); "
            "declared length capped at 1 MiB.",
            "DESIGN.md 7 C14"),
}

CHECKS.update({
    "C13": ("fault_enumeration",
            TECH + "every truncation offset x 6 simulated stream kinds x a seeded call history per generated archive, plus lasting and "
            "transient read errors, skip-failure and seek-error faults, sources that never end, tool runs with objects in the way; bounded liveness measured in seam steps, heap measured by the allocator ledger",
            "Fault enumeration over truncation offsets and stream kinds (complete for each sampled archive up to 1500 offsets), "
            "exploration over archives (plain, extreme length fields, corrupted, random) and histories. Oracle: stream calls per "
            "drive <= 64 + 2*len + out/8 + 8*ops (about 5x the observed maximum), peak ledgered heap <= 8 MiB + 2*len, CPU watchdog "
            "for loops that cross no seam; decoders on endless/self-referential input must stop at the declared length; a source that "
            "never ends and never shows a header is given up within the 256 KiB reach of the header search.",
            "Liveness in simulated steps, not wall time; entries declaring more than 4 MiB are read in bounded pieces rather than "
            "decoded in full; tool commands have a family here and are also covered by the C06/C07/C08/C10 scenarios.",
            "DESIGN.md 7 C13"),
    "C15": ("exploration",
            TECH + "seeded call histories and seeded interleavings of 1-3 readers (real threads parked on a baton, switch decisions at "
            "every stream/allocator/filesystem/progress seam) checked against an executable reference reader model",
            "Exploration: each run compares every API observation of every reader (headers, fake flags, read bytes, verdicts, "
            "extraction results and files on SimFS) with a 150-line reference model fed from a canonical traversal; directory "
            "re-presentation per policy, deferred-symlink order, sticky end and reader independence under interleaving are model rules; a third of "
            "the runs repeat every history alone on a fresh filesystem and require identical observations; injected skip failures may end the "
            "archive early once, nothing else; extraction meets failing system calls and objects in the way (success is demanded only when the "
            "filesystem refused nothing); the input may end or fail at an arbitrary offset (reference = what the archive yields up to there); "
            "readers may open their archive by name (the library's own FILE and buffer), several at a time; one plan in six carries a whole second archive behind the end marker (the end is final whatever was extracted before).",
            "Trusted: H/B/V of the model come from the same library's canonical traversal; SimFS semantics (validated against the kernel); "
            "state shared only inside seam-free stretches is not reachable by the baton schedule.",
            "DESIGN.md 7 C15, appendix D"),
    "C16": ("exploration",
            TECH + "the stream-kind seam itself: each generated archive (optionally truncated, optionally behind a self-extractor "
            "prefix or marker+decoy) is traversed three ways through six simulated stream kinds and compared with the seekable-file reference",
            "Exploration with two enumerated sub-ranges (all prefix lengths 0..64 by run index; every run covers all 6 kinds x 3 "
            "traversal modes). Oracle: headers (incl. raw header digest), member bytes and check verdicts equal those of the bare "
            "archive read from a seekable file. Prefix bytes are filtered by an independent scanner written from the statement. "
            "Injected stream faults (failing skip, read error): the headers returned must be a prefix of the reference sequence; stored "
            "members containing complete small members ('ghosts'); declared packed sizes up to 2^32-1 incl. values that wrap to a negative "
            "seek; near-miss markers and signatures in the prefix; sources the caller has partly consumed before handing them over; "
            "'lha CMD ARCHIVE' vs 'lha CMD -' (pipe, seekable stdin).",
            "Sources answer short only at end of input; pipes are non-seekable cookie streams; prefixes are a subset of the allowed "
            "ones (filler never contains '-' or 'L').",
            "DESIGN.md 7 C16"),
    "C20": ("fault_enumeration",
            TECH + "allocator and handle ledgers behind link-time wrappers; for each sampled (archive, history) pair abandonment at "
            "every prefix and failure of every library allocation are enumerated",
            "Fault enumeration, complete over X-ABANDON(j) for every j and A-FAIL(k) for every k for each sampled pair; exploration "
            "over archives (nested directories, dangerous symlinks, MacBinary members, multi-extended-header levels), histories, "
            "stream kinds incl. open-by-name, directory policies, truncated and failing input, failing system calls and objects in the way "
            "during extraction. Oracle: ledger empty and no handle open after the two free calls; "
            "the call that met the failing allocation returns its failure value (NULL/0, or a re-presented entry before NULL).",
            "libc-internal allocations (stdio buffers) are outside the ledger; sanitizers catch invalid accesses on the failure paths.",
            "DESIGN.md 7 C20"),
})

CHECKS.update({
    "C11": ("exploration",
            TECH + "always-on invariant monitor: every header returned in every simulated reader run (all scenarios, incl. corrupted "
            "storage) is scanned; a dedicated seeded hostile-name scenario feeds the monitor",
            "Exploration at the weakest level: the property is a pure-input invariant; the simulator contributes the monitor (checked in "
            "C08/C12/C13/C15/C16/C20 runs too) and a seeded generator over the alphabet {. / \\ 0xFF NUL | a A} for in-header names, "
            "0x01/0x02 headers and symlink forms under every OS byte class, one string in four mixing in arbitrary bytes, one run in four with a "
            "failing allocation. Not the exhaustive enumeration the quantifier mentions.",
            "Random sampling; strings up to length 6 are each reached with high probability in the thorough tier only.",
            "DESIGN.md 7 C11"),
    "C12": ("fault_enumeration",
            TECH + "stored-byte faults as the workload: all 255 substitutions at every header byte, every truncation length and "
            "length-field perturbations for each sampled header, judged by an independent framing checker",
            "Fault enumeration, complete over the single-fault space for each sampled well-formed header (levels 0-3, files, "
            "directories, symlinks, with/without extended headers, common CRC, Unix area), stream kinds rotating. One-directional "
            "oracle written from the statement: checker says FAIL => next_file returns NULL for it and for all later calls; single-bit "
            "header faults are additionally combined with a failure of each of the first ten allocations (A-FAIL); one sampled header in five "
            "stands first in the stream, where the search for the first header decides whether it is a header at all.",
            "The checker asserts only the rules listed in DESIGN appendix E; nothing is concluded when it passes a header.",
            "DESIGN.md 7 C12, appendix E"),
    "C18": ("exploration",
            TECH + "simulated terminal: stdout and stderr of every in-process CLI run are scanned byte by byte; a dedicated seeded scenario "
            "puts bytes 0x01-0xFF into every archive-derived string incl. the method field",
            "Exploration: invariant monitor on the captured terminal of every CLI run (also in C06/C07/C08/C10/C19 runs) plus a hostile-"
            "string generator (incl. strings of 200-350 bytes) across modes l lv v vv t x xn xq0-2 xi p e with filters on SimFS; a quarter of the "
            "runs also fail one allocation of the tool or library (A-FAIL from the fourth allocation on). The whole workload is run a second "
            "time in the uninstrumented build (allocator re-use of freed blocks, which ASan's quarantine hides).",
            "Pure-input invariant claimed at the weakest level; file data dumped by 'p' is generated printable so that the whole output can be scanned.",
            "DESIGN.md 7 C18"),
    "C19": ("exploration",
            TECH + "simulated clock (time()), archive mtime (fstat), fixed-offset time zone and stream kind (file / stdin pipe / stdin "
            "seekable) around an independent list renderer fed from generator ground truth",
            "Exploration: stdout of l/lv/v/vv x quiet levels x wildcard lists must equal the reference rendering byte for byte; 'now' and "
            "member time stamps are placed on both sides of the six-month boundary, at 0, 2^31 and 2^32-1; sizes up to 2^32-1; every OS "
            "byte; Unix and OS-9 permission words; header levels 0-3; duplicate member names with name arguments; the one-argument form. "
            "The workload is run a second time in the uninstrumented build.",
            "Renderer written from the column specification (DESIGN appendix F); ratio accepted in single or double precision; "
            "printable names only; totals below 2^32; fixed-offset zones (no DST rules).",
            "DESIGN.md 7 C19, appendix F"),
})

CHECKS.update({
    "C06": ("exploration",
            TECH + "the real tool (and the library under its three directory policies) on a simulated filesystem with simulated "
            "euid, umask, filesystem clock and scripted prompt, compared with an executable reference extractor built from generator ground truth",
            "Exploration: seeded well-formed trees x invocations (x/e/p, options f q0-q2 i v w=DIR, wildcard lists, pre-existing files with "
            "prompt scripts) x uid 0/1000 x umask; the resulting SimFS tree (contents, recorded mtimes, recorded permission bits, link "
            "targets, nothing unexpected, untouched originals) must equal the model tree; stdout for p. The simulated clock makes "
            "'directory keeps its recorded mtime although children were written later' an ordering constraint, uid 1000 makes "
            "'metadata only after contents' a permission constraint. One run in six has one system call of the extraction fail once "
            "(F-SYSCALL): the object it was made for is excused, every other entry must still match exactly. Initial trees hold files, "
            "directories, symbolic links (to directories, to nothing) and directories without write permission at the places the archive writes to. "
            "The workload is run a second time in the uninstrumented build.",
            "SimFS semantics are validated against the kernel (check selftest simfs); ownership, set-id bits, modes without recorded "
            "permissions and mtimes of directories holding unsafe symlinks are not compared; names are separator-free printable with a lower-case letter.",
            "DESIGN.md 7 C06, appendix G"),
    "C07": ("fault_enumeration",
            TECH + "storage faults as the workload (every truncation offset; every <=16-bit burst at every bit offset of stored members; wrong "
            "recorded CRC/length; damage in compressed data) judged against the bytes a twin reader actually obtains",
            "Fault enumeration over truncation offsets and bursts for each sampled archive, exploration over archives, stream kinds and "
            "tool invocations. Oracle: lha_reader_check verdict <=> [length and bitwise CRC-16 of the produced bytes equal the header's]; "
            "'lha t'/'lha x' lines, extracted files and exit status (low eight bits, with and without name arguments, up to 512 failing "
            "members) agree; a cut or burst inside a stored member is always bad; the output medium refusing data from byte n on, or once at "
            "byte n, for every n, never yields 'Melted'/exit 0 for a file that lacks bytes.",
            "Bursts are consecutive in the bit order CRC-16/ARC processes (LSB of each byte first), the only order for which the 16-bit "
            "guarantee is mathematically true; MacBinary members excluded.",
            "DESIGN.md 7 C07"),
    "C08": ("exploration",
            TECH + "storage corruption, truncation and read-error faults x call histories x stream kinds x directory policies x tool "
            "modes on SimFS, with ASan/UBSan and an abort() trap as invariant monitors",
            "Exploration: sampling of a corruption neighbourhood of generated archives of every profile, of the repository's own small "
            "archives and of random strings behind a valid signature; library histories and in-process tool runs; a worker death is "
            "attributed to the plan in its slot, confirmed in a fresh process and minimised by running candidates in children.",
            "Not coverage-guided; intra-allocation overflows that UBSan cannot type are invisible; members declaring > 4 MiB are listed or "
            "read in bounded pieces, not decoded in full.",
            "DESIGN.md 7 C08"),
    "C10": ("exploration",
            TECH + "the real tool on SimFS, which resolves every path at call time; containment / dangerous-symlinks-last / replace-never-"
            "follow invariants evaluated after every filesystem operation (= every crash point), with failing-syscall and failing-write faults",
            "Exploration over hostile archives (path alphabet incl. '..', absolute, backslash, 0xFF, NUL; safe/absolute/'..' symlinks; "
            "link-then-file patterns; levels 0-3; corrupted variants), option sets (f q i w=), prompt scripts, initial trees with files and "
            "symlinks to files or dangling, uid 0/1000; a canary tree must stay bit-identical; read-only commands must not mutate.",
            "SimFS resolution semantics validated against the kernel; 'w=' defines the root; failed operations on '.'/'..' are not counted "
            "(they cannot succeed in any tree); length order of deferred links checked without 'i' and with a slack of 1 for the stripped leading '/'.",
            "DESIGN.md 7 C10"),
})

NOT_APPLICABLE = {
    "C01": "pure function of the compressed bytes (decode(serialise(cmds)) == expand(cmds)): no schedule, clock, fault or stream behaviour to simulate",
    "C02": "pure function of the compressed bytes (adaptive tree is internal state of a deterministic fold): nothing for a simulator to vary",
    "C03": "pure function of the compressed bytes: nothing for a simulator to vary",
    "C04": "pure function of the compressed bytes; its one environment-facing clause (pm1 zero-fill past end of data) is exercised under C13/C14",
    "C05": "pure function of the header bytes; its observable consequences are compared with generator ground truth by the C06 and C19 oracles",
    "C17": "pure function of (state, bytes); its quantifier is an exhaustive enumeration, which is not simulation (C14 recomputes CRC-16 bitwise over every returned byte sequence under arbitrary splits)",
}

PENDING = {
}


def main():
    props = [json.loads(l)["id"] for l in open(os.path.join(VERIF, "properties.jsonl")) if l.strip()]
    checks = []
    for pid in props:
        if pid in CHECKS:
            cat, tech, text, note, ref = CHECKS[pid]
            checks.append({
                "property_id": pid,
                "quick_cmd": "./check %s quick" % pid,
                "thorough_cmd": "./check %s thorough" % pid,
                "evidence_file": "evidence/%s.json" % pid,
                "replay_cmd_template": "./check replay {path}",
                "engine": "simlha",
                "level_claimed": {"category": cat, "text": text, "design_ref": ref},
                "level_note": note,
                "technique": tech,
            })
    na = []
    for pid in props:
        if pid in CHECKS:
            continue
        if pid in NOT_APPLICABLE:
            na.append({"property_id": pid, "reason": NOT_APPLICABLE[pid]})
        else:
            na.append({"property_id": pid, "reason": PENDING.get(pid, "not claimed yet: its simulation check is designed (DESIGN.md section 7) but not built at this commit")})
    manifest = {
        "version": 1,
        "setup_cmd": "./check setup",
        "hooks": {
            "guard": "LHASA_VERIF",
            "enable": "no source hooks exist: every seam is an existing callback interface or a libc symbol wrapped at link time "
                      "(-Wl,--wrap); the guard name is reserved and unused",
            "baseline_off_cmd": "make -C /repo check",
            "source_commits": [],
            "add_only": True,
        },
        "engines": [{
            "name": "simlha",
            "path": "sim/",
            "serves_properties": sorted(CHECKS),
            "kind_free_text": "deterministic simulator: real lib/*.c and src/*.c in one process; seeded plans; simulated archive "
                              "sources, compressed-data source, allocator, filesystem, clock, terminal; baton scheduler; "
                              "fault injection; minimised replay files",
        }],
        "checks": checks,
        "not_applicable": na,
        "notes": "All checks: ./check <id> quick|thorough; replay: ./check replay <plan>. VERIF_SEED selects the seed. "
                 "Known findings and fixed defects: known_findings.txt.",
    }
    with open(os.path.join(VERIF, "MANIFEST.json"), "w") as f:
        json.dump(manifest, f, indent=1)
        f.write("\n")


if __name__ == "__main__":
    main()
