#!/usr/bin/env python3
"""Writes /verif/MANIFEST.json from the table below (single source of truth)."""
import json
import os

VERIF = os.path.dirname(os.path.dirname(os.path.abspath(__file__)))

TECH = "deterministic simulation with fault injection: "

CHECKS = {
    # id: (category, technique, level text, level note, design ref)
    "C09": ("exploration",
            TECH + "seeded search over corrupted/truncated compressed streams, declared lengths, read schedules and "
            "end-of-data behaviours on the decoder's callback seam; sanitizers as invariant monitors",
            "Exploration: every run feeds one seeded byte string (real encoder output with stored-byte faults, cuts, "
            "random or constant bytes) to one of the 14 decoders through the simulated compressed-data source, via the "
            "decoder API and via the per-type init/read callbacks on exact-size heap blocks; ASan/UBSan silence and "
            "'read returns at most k' are the oracle. Sampling of a corruption neighbourhood, not a proof.",
            "Trusted: ASan + UBSan(bounds,null,pointer-overflow,...) see every invalid access except overflows that stay "
            "inside one allocation and are not statically bounded arrays; the source never answers short mid-stream.",
            "DESIGN.md 7 C09"),
    "C14": ("exploration",
            TECH + "seeded search over read-size histories, monitor attach points, stream faults and end-of-data "
            "behaviours on the decoder's callback seam, checked against a single-read reference run and a bitwise CRC-16",
            "Exploration: every run is one (method, stream with faults, declared length, end-of-data flavour, read "
            "history, monitor attach point); the history run must agree with a single maximal read of the same "
            "stream, get_length/get_crc are compared with an independent bitwise CRC-16/ARC after every call, the "
            "monitor sequence is checked; unanswered request bytes are poisoned differently in the two runs so use of "
            "bytes the source never returned shows up deterministically.",
            "Trusted: the reference run is the same library (history-invariance oracle, no plaintext ground truth); "
            "declared length capped at 1 MiB.",
            "DESIGN.md 7 C14"),
}

NOT_APPLICABLE = {
    "C01": "pure function of the compressed bytes (decode(serialise(cmds)) == expand(cmds)): no schedule, clock, fault or stream behaviour to simulate",
    "C02": "pure function of the compressed bytes (adaptive tree is internal state of a deterministic fold): nothing for a simulator to vary",
    "C03": "pure function of the compressed bytes: nothing for a simulator to vary",
    "C04": "pure function of the compressed bytes; its one environment-facing clause (pm1 zero-fill past end of data) is exercised under C13/C14",
    "C05": "pure function of the header bytes; its observable consequences are compared with generator ground truth by the C06 and C19 oracles",
    "C17": "pure function of (state, bytes); its quantifier is an exhaustive enumeration, which is not simulation (C14 recomputes CRC-16 bitwise over every returned byte sequence under arbitrary splits)",
}

PENDING = {
}


def main():
    props = [json.loads(l)["id"] for l in open(os.path.join(VERIF, "properties.jsonl")) if l.strip()]
    checks = []
    for pid in props:
        if pid in CHECKS:
            cat, tech, text, note, ref = CHECKS[pid]
            checks.append({
                "property_id": pid,
                "quick_cmd": "./check %s quick" % pid,
                "thorough_cmd": "./check %s thorough" % pid,
                "evidence_file": "evidence/%s.json" % pid,
                "replay_cmd_template": "./check replay {path}",
                "engine": "simlha",
                "level_claimed": {"category": cat, "text": text, "design_ref": ref},
                "level_note": note,
                "technique": tech,
            })
    na = []
    for pid in props:
        if pid in CHECKS:
            continue
        if pid in NOT_APPLICABLE:
            na.append({"property_id": pid, "reason": NOT_APPLICABLE[pid]})
        else:
            na.append({"property_id": pid, "reason": PENDING.get(pid, "not claimed yet: its simulation check is designed (DESIGN.md section 7) but not built at this commit")})
    manifest = {
        "version": 1,
        "setup_cmd": "./check setup",
        "hooks": {
            "guard": "LHASA_VERIF",
            "enable": "no source hooks exist: every seam is an existing callback interface or a libc symbol wrapped at link time "
                      "(-Wl,--wrap); the guard name is reserved and unused",
            "baseline_off_cmd": "make -C /repo check",
            "source_commits": [],
            "add_only": True,
        },
        "engines": [{
            "name": "simlha",
            "path": "sim/",
            "serves_properties": sorted(CHECKS),
            "kind_free_text": "deterministic simulator: real lib/*.c and src/*.c in one process; seeded plans; simulated archive "
                              "sources, compressed-data source, allocator, filesystem, clock, terminal; baton scheduler; "
                              "fault injection; minimised replay files",
        }],
        "checks": checks,
        "not_applicable": na,
        "notes": "All checks: ./check <id> quick|thorough; replay: ./check replay <plan>. VERIF_SEED selects the seed. "
                 "Known findings and fixed defects: known_findings.txt.",
    }
    with open(os.path.join(VERIF, "MANIFEST.json"), "w") as f:
        json.dump(manifest, f, indent=1)
        f.write("\n")


if __name__ == "__main__":
    main()
