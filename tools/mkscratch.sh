#!/bin/sh
# mkscratch.sh <dir>: scratch git worktree of /repo at HEAD, with the (untracked)
# autotools products copied over and configured, ready for `make` / `make check`.
set -e
dir="$1"
[ -n "$dir" ] || { echo "usage: mkscratch.sh <dir>" >&2; exit 2; }
git -C /repo worktree add --detach -f "$dir" HEAD >/dev/null 2>&1
cd /repo
cp -r autotools/. "$dir/autotools/" 2>/dev/null || true
[ -d m4 ] && cp -r m4/. "$dir/m4/" 2>/dev/null || true
[ -e INSTALL ] && cp INSTALL "$dir/INSTALL"
# generated files must be newer than their sources, in dependency order
sleep 1
for f in aclocal.m4 configure config.hin Makefile.in lib/Makefile.in lib/public/Makefile.in src/Makefile.in test/Makefile.in doc/Makefile.in pkg/Makefile.in; do
	[ -e "$f" ] && cp "$f" "$dir/$f" && touch "$dir/$f"
done
cd "$dir"
./configure >/dev/null 2>&1
echo "scratch worktree ready: $dir (build: make -j8; tests: make -j8 check)"
