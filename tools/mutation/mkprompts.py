#!/usr/bin/env python3
"""mkprompts.py <round dir under /tmp> <round name>: writes one prompt per sub-agent (prompt_<key>.txt) for a round of
seeded changes.  A prompt holds the text of ONE property, the path of the agent's own scratch worktree, the one-line
summaries of the changes already kept for that property (so that rounds do not repeat themselves) and a focus.
Nothing else from /verif goes into a prompt."""
import glob
import json
import os
import sys

VERIF = os.path.dirname(os.path.dirname(os.path.dirname(os.path.abspath(__file__))))

# round 4: every focus is a fault, an environment condition or a call history - what the simulator injects
FOCUS_R4 = {
    "C06": "what extraction does when individual system calls fail or the tree is in an unexpected state (mkdir EEXIST/EACCES, chown EPERM, utime or chmod failing, a write that is short, a target that exists as a directory / as a symlink / read-only), the timing of directory metadata under the three directory policies, the replacement of symlink placeholders",
    "C07": "read errors (as opposed to end of input) in the middle of a member, verdicts after several partial reads or after a member was read twice, CRC state carried across calls, exit status accumulated over several members and with file-name patterns, the 't' command at the quiet levels",
    "C08": "header parsing on streams that end or fail at a particular byte, extended-header chains of levels 1-3, the tool's own code (src/*.c) on unusual headers and when an allocation fails after start-up, src/filter.c and src/safe.c",
    "C09": "lib/bit_stream_reader.c (end of input in the middle of a symbol or a table), block boundaries and table re-reads of lib/lh_new_decoder.c, the offset tables of -lh6-/-lh7-/-lhx-, history-ring wrap-around in every decoder, lib/pm2_decoder.c history list",
    "C10": "system calls failing in the middle of an extraction (mkdir, symlink, unlink, open failing with particular errno values), deferred symbolic links when something fails between placeholder and final link, is_dangerous_symlink corner cases, absolute or slash-terminated w= arguments",
    "C11": "lib/lha_file_header.c and lib/ext_header.c: how path and file name are assembled across header levels and extended headers (duplicates, empty ones, their order, 0xff separators, backslashes from MS-DOS, a path inside the level-0/1 name field, Unix symlink 'name|target' splitting)",
    "C12": "checksum / CRC / length validation when the stream ends or fails inside a header, the dispatch on the header-level byte, minimum lengths of level 0/1 headers, the accounting of the level-1 'skip size' against extended headers, what the reader does on the call AFTER a rejected header",
    "C13": "read errors versus end of input in the skip fallbacks and decode loops, sources that deliver data but never end, lib/macbinary.c decode_to_end, do_decode / lha_reader_check on members whose decoder fails at once, retry loops in src/*.c",
    "C14": "lha_decoder_read when the compressed source returns fewer bytes than asked, exactly at block boundaries, or fails; the stream_length clamp; CRC and length bookkeeping across many tiny reads; decoders returning 0 before the declared length",
    "C15": "the reader state machine across the three directory policies when an operation FAILS (extract refused, mkdir failing, read error) and the caller carries on; 'remaining compressed bytes' accounting after a partial read followed by next_file; decoder reuse after a failed open; two readers on one process sharing anything",
    "C16": "lead-in replay after the header search (first read smaller or larger than what is buffered), a header that straddles the 24-byte window refill, read errors during the search, skipping the rest of a partly read member on pipe versus seekable file, '-' handling in src/main.c",
    "C18": "src/safe.c itself (which bytes are replaced, '%' handling, vasprintf failure, very long strings) and the remaining print sites: user/group names, symlink targets and full paths in src/list.c, all messages of src/extract.c at all quiet levels",
    "C19": "src/list.c: time stamps (six-month rule against the clock, future dates, time zones, level-0 DOS times versus Unix times), ratio for packed > original and for empty members, column overflow for large sizes, footer totals over many members, file-name patterns selecting a subset",
    "C20": "release paths when system calls fail during lha_reader_extract (open, mkdir, symlink failing), lha_reader_free while a decoder is open in mid-member, the close callback of callback streams (exactly once), header reference counts in the deferred-symlink and directory lists, lha_input_stream_free on every stream kind",
}

# round 5: functions that the first four rounds touched least
FOCUS_R5 = {
    "C06": "the Unix metadata decoders of lib/ext_header.c (permissions, uid/gid, user and group names, Unix time stamp, Windows time stamps), the level-0 Unix/OS-9 extended areas and decode_ftime in lib/lha_file_header.c, and the by-path calls of lib/lha_arch_unix.c (lha_arch_mkdir, lha_arch_chmod, lha_arch_utime, lha_arch_symlink) with set_directory_metadata in lib/lha_reader.c",
    "C07": "lib/macbinary.c (the MacBinary pass-through: lengths, what is counted and CRC-checked), the CRC and length bookkeeping of lib/lha_decoder.c, and how do_decode / lha_reader_check decide when a decoder (-lz5-, -lzs-, -pm1-, -pm2-, -lh1-) stops early or produces too much",
    "C08": "the individual extended-header decoders of lib/ext_header.c when their data is shorter or longer than expected, the level-0 name / extended-area arithmetic and level-3 parsing in lib/lha_file_header.c, and what src/list.c does with odd but accepted headers",
    "C09": "lib/lh1_decoder.c, lib/lz5_decoder.c, lib/lzs_decoder.c, lib/pm1_decoder.c and lib/pm2_decoder.c (NOT lib/lh_new_decoder.c, which has been used enough)",
    "C10": "lib/lha_arch_unix.c calls that act on a path (lha_arch_mkdir, lha_arch_exists, lha_arch_chmod, lha_arch_utime, lha_arch_symlink), the deferred-symlink list of lib/lha_reader.c, and the way src/extract.c builds output paths and creates parent directories",
    "C11": "collapse_path, fix_msdos_allcaps, process_level0_path / split_header_filename in lib/lha_file_header.c, the path and file-name extended-header decoders of lib/ext_header.c, OS-specific handling",
    "C12": "decode_level0_header and decode_level2_header, check_common_crc, the final checks of lha_file_header_read (file without name, directory without path) and lib/lha_basic_reader.c",
    "C13": "lib/bit_stream_reader.c, the loops of lib/lh1_decoder.c and lib/pm2_decoder.c, lha_basic_reader_read_compressed, lha_input_stream_skip and its callers, loops in src/extract.c and src/list.c",
    "C14": "the read functions of the older decoders (-lz5-, -lzs-, -lh1-, -pm1-, -pm2-, -lh0-/null) in relation to the output buffer of lha_decoder_read, lha_decoder_new / lha_decoder_for_name, lha_decoder_get_length / lha_decoder_get_crc",
    "C15": "lib/lha_basic_reader.c (curr_file_remaining, lha_basic_reader_read_compressed, lha_basic_reader_curr_file), the END_OF_FILE directory policy in lha_reader_next_file, lha_reader_current_is_fake, lha_reader_set_dir_policy called in the middle of a traversal",
    "C16": "lha_input_stream_read (emptying the lead-in buffer with small and large requests), lha_input_stream_skip while the lead-in buffer still holds bytes, the chunking of file_source_skip_fallback, lha_input_stream_new / lha_input_stream_from_FILE / lha_input_stream_from",
    "C18": "every column printer of src/list.c (name, symlink arrow, user and group names, OS names, unknown methods, permissions), the dry-run and 'p' banners of src/extract.c, print_filename",
    "C19": "column widths, header and footer text per quiet level and verbosity, ratio rounding, OS-type names, header-level column, CRC column, date formats and the two-line layout of 'vv' in src/list.c",
    "C20": "the free paths of lib/lha_file_header.c (strings replaced by later extended headers, lha_file_header_free / add_ref), lha_decoder_free and the decoders' own free callbacks, lib/macbinary.c, lha_basic_reader_free, lha_input_stream_free",
}

# round 6: environment, time, identities, order of entries, option combinations, arithmetic at the extremes
FOCUS_R6 = {
    "C06": "the interplay of the extracting user (root or not), umask, recorded owner/group ids and time stamps with the ORDER of entries in the archive (a directory after its contents, the same path twice, a file and later a directory of the same name, the entries of one directory scattered over the archive), the 'p' command, w= values with trailing slashes or dots",
    "C07": "members of length 0, members whose recorded length is 0 although data is present, very small members of every method, '-lhd-' entries that carry data, the 't' command combined with i / w= / patterns, agreement between 't' and 'x' on the same archive, initial state of the CRC",
    "C08": "the tool's option parser and pattern code with odd command lines (empty strings, very long arguments, '-' alone, repeated or unknown option letters, w= without a value), header fields at their extremes (time 0 and maximum, lengths 0 and maximum, every OS byte, every header level byte) as they reach src/list.c and src/extract.c",
    "C09": "the helper routines that build and walk code tables (lib/tree_decode.c build_tree / read_from_tree, the length-reading helpers of lh_new_decoder), the block counter and the history ring exactly at their wrap points, the tree rebuild of lib/lh1_decoder.c when frequencies overflow, the history list rebuild of lib/pm2_decoder.c",
    "C10": "option combinations of the tool (i together with w=, f, the q levels, patterns), dry run versus real run, the order of entries (one name as file, then as directory, then as link), stripping of leading slashes, names made only of dots and separators",
    "C11": "headers that give the 0x01 and 0x02 extended headers several times, very long paths (beyond 255 and beyond 4096 bytes), paths made only of separators, Unix names containing backslashes, OS-9/68k and Human68k conventions, symlink 'a|b' where a or b contain further '|' characters",
    "C12": "end-of-archive detection (the zero byte, a level-2/3 length of zero), what follows an end marker, header-level byte values 4..255, header sizes exactly at their minimum, byte-order slips in size fields, a common (0x00) extended header with information bytes behind the CRC",
    "C13": "arithmetic in src/list.c and src/extract.c (progress bars for lengths 0, 1 and 2^32-1, divisions, loops that print dots or blocks), lengths near the maximum in lib/lha_decoder.c and lib/lha_basic_reader.c ('remaining' counters), directory entries that declare huge sizes",
    "C14": "the block arithmetic of the progress monitor (total_blocks for lengths that are multiples of the block size, 0, 1, block_size-1, block_size+1, huge), the CRC across zero-length reads, lha_decoder_monitor called twice or late, decoders whose block_size differs",
    "C15": "re-presented (fake) entries: extracting them under another name, reading or checking them, is_fake right after start and after the end; END_OF_DIR with directory names that are prefixes of one another, with an empty path, with './' prefixes and absolute paths; directories given twice",
    "C16": "garbage or a second archive after the end marker, self-extractor prefixes that end exactly on the edges of the 24-byte window, a marker cut by the 256 KiB limit, '-' combined with options and patterns, very short inputs (0..30 bytes) on every stream kind",
    "C18": "every place where the tool formats a NUMBER or a table entry derived from a header: sizes, ratios, CRCs, dates (month table with out-of-range months), OS-name table, header-level column, permission strings; error messages built with strerror; the usage text path",
    "C19": "ratio rounding (packed*1000/length at .x5 boundaries, 999.9, packed > length), totals over members with and without sizes, the file count in the footer, fixed-offset time zones and negative or pre-1980 times, DOS time stamps with out-of-range fields, name column for symlinks and directories",
    "C20": "stream objects: lha_input_stream_from on a missing or unreadable file, lha_input_stream_from_FILE, callback tables with NULL skip or NULL close, freeing a stream whose lead-in buffer still holds bytes, lha_reader_new after a failed stream; decoders whose init fails; header reference counting when one header sits in two lists",
}

# round 7: free choice - whatever the earlier rounds have not touched
FREE = "anything you like, as long as it is NOT one of the ideas listed above or a close variant: read the anchored files again with fresh eyes, look for the clause of the property nobody has attacked yet, for code paths that run only for unusual header levels, OS types, methods, option letters or input sizes, and for assumptions that two distant pieces of code share silently"
FOCUS_R7 = {k: FREE for k in ("C06", "C07", "C08", "C09", "C10", "C11", "C12", "C13", "C14", "C15", "C16", "C18", "C19", "C20")}


# round 8 (short round, one change per agent): two cooperating sites / multi-step histories
PAIR = "a change made of TWO small edits at different sites that each look harmless alone and only together break the property, or one edit whose effect shows only after a multi-step history (a particular sequence of calls or members, state carried from one member or call to the next); again nothing from the list above"
FOCUS_R8 = {k: PAIR for k in ("C06", "C07", "C13", "C15", "C16", "C20")}
SHORT = "\n\nTIME LIMIT: you have about 12 minutes in total. Produce ONLY change A (ignore everything said about B), run `make -j8 check` once, keep the demonstration small, and reply as soon as MUTANT_A is complete.\n"


def prop_text(d):
    return "Property %s: %s\n\nStatement: %s\n\nQuantifier: %s\n\nWhy the existing tests cannot settle it: %s\n\nWhere it lives in the code (anchors): files %s\nMechanisms:\n%s\n" % (
        d["id"], d["title"], d["statement"], d["quantifier"]["text"], d["why_tests_cant"], ", ".join(d["anchors"]["files"]),
        "\n".join(" - %s (%s)" % (m["name"], m["where"]) for m in d["anchors"]["mechanism"]))


def main():
    rdir, rname = sys.argv[1], sys.argv[2]
    focus_table = {"fourth": FOCUS_R4, "fifth": FOCUS_R5, "sixth": FOCUS_R6, "seventh": FOCUS_R7, "eighth": FOCUS_R8}.get(rname, FOCUS_R7)
    os.makedirs(rdir, exist_ok=True)
    props = {}
    for l in open(os.path.join(VERIF, "properties.jsonl")):
        d = json.loads(l)
        props[d["id"]] = d
    known = {}
    for meta in sorted(glob.glob(os.path.join(VERIF, "seeded", "*", "meta.json"))):
        m = json.load(open(meta))
        s = m.get("summary") or m.get("needs") or ""
        known.setdefault(m["property"], []).append(s.split(";")[0])
    tmpl = open(os.path.join(os.path.dirname(os.path.abspath(__file__)), "prompt_template.txt")).read()
    extra = """
IMPORTANT - this is a %s round. The following ideas have ALREADY been used by others for this property; do not repeat them or close variants of them:
@@KNOWN@@
This time concentrate on: @@FOCUS@@.
Aim for changes that are hard to notice: they should need a fault at a particular point (a failing allocation, write, close or other system call with a particular errno; end of input or a read error at a particular offset), a particular interleaving of two readers, a multi-step sequence of API calls or archive entries, an unusual but legal input shape, a particular state of the file system before the run, a particular combination of options, or two code sites that each look fine alone. A change whose effect is visible on every ordinary archive is not interesting.
""" % rname
    for p, focus in focus_table.items():
        d = os.path.join(rdir, p)
        t = tmpl.replace("@@DIR@@", d).replace("@@PROP@@", prop_text(props[p]))
        k = "\n".join(" - " + x for x in known.get(p, []))
        t = t.replace("What to produce:", extra.replace("@@KNOWN@@", k).replace("@@FOCUS@@", focus) + "\nWhat to produce:")
        if rname == "eighth":
            t += SHORT
        open(os.path.join(rdir, "prompt_%s.txt" % p), "w").write(t)
    print(" ".join(sorted(focus_table)))


if __name__ == "__main__":
    main()
