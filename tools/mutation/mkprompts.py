#!/usr/bin/env python3
"""mkprompts.py <round dir under /tmp> <round name>: writes one prompt per sub-agent (prompt_<key>.txt) for a round of
seeded changes.  A prompt holds the text of ONE property, the path of the agent's own scratch worktree, the one-line
summaries of the changes already kept for that property (so that rounds do not repeat themselves) and a focus.
Nothing else from /verif goes into a prompt."""
import glob
import json
import os
import sys

VERIF = os.path.dirname(os.path.dirname(os.path.dirname(os.path.abspath(__file__))))

# round 4: every focus is a fault, an environment condition or a call history - what the simulator injects
FOCUS_R4 = {
    "C06": "what extraction does when individual system calls fail or the tree is in an unexpected state (mkdir EEXIST/EACCES, chown EPERM, utime or chmod failing, a write that is short, a target that exists as a directory / as a symlink / read-only), the timing of directory metadata under the three directory policies, the replacement of symlink placeholders",
    "C07": "read errors (as opposed to end of input) in the middle of a member, verdicts after several partial reads or after a member was read twice, CRC state carried across calls, exit status accumulated over several members and with file-name patterns, the 't' command at the quiet levels",
    "C08": "header parsing on streams that end or fail at a particular byte, extended-header chains of levels 1-3, the tool's own code (src/*.c) on unusual headers and when an allocation fails after start-up, src/filter.c and src/safe.c",
    "C09": "lib/bit_stream_reader.c (end of input in the middle of a symbol or a table), block boundaries and table re-reads of lib/lh_new_decoder.c, the offset tables of -lh6-/-lh7-/-lhx-, history-ring wrap-around in every decoder, lib/pm2_decoder.c history list",
    "C10": "system calls failing in the middle of an extraction (mkdir, symlink, unlink, open failing with particular errno values), deferred symbolic links when something fails between placeholder and final link, is_dangerous_symlink corner cases, absolute or slash-terminated w= arguments",
    "C11": "lib/lha_file_header.c and lib/ext_header.c: how path and file name are assembled across header levels and extended headers (duplicates, empty ones, their order, 0xff separators, backslashes from MS-DOS, a path inside the level-0/1 name field, Unix symlink 'name|target' splitting)",
    "C12": "checksum / CRC / length validation when the stream ends or fails inside a header, the dispatch on the header-level byte, minimum lengths of level 0/1 headers, the accounting of the level-1 'skip size' against extended headers, what the reader does on the call AFTER a rejected header",
    "C13": "read errors versus end of input in the skip fallbacks and decode loops, sources that deliver data but never end, lib/macbinary.c decode_to_end, do_decode / lha_reader_check on members whose decoder fails at once, retry loops in src/*.c",
    "C14": "lha_decoder_read when the compressed source returns fewer bytes than asked, exactly at block boundaries, or fails; the stream_length clamp; CRC and length bookkeeping across many tiny reads; decoders returning 0 before the declared length",
    "C15": "the reader state machine across the three directory policies when an operation FAILS (extract refused, mkdir failing, read error) and the caller carries on; 'remaining compressed bytes' accounting after a partial read followed by next_file; decoder reuse after a failed open; two readers on one process sharing anything",
    "C16": "lead-in replay after the header search (first read smaller or larger than what is buffered), a header that straddles the 24-byte window refill, read errors during the search, skipping the rest of a partly read member on pipe versus seekable file, '-' handling in src/main.c",
    "C18": "src/safe.c itself (which bytes are replaced, '%' handling, vasprintf failure, very long strings) and the remaining print sites: user/group names, symlink targets and full paths in src/list.c, all messages of src/extract.c at all quiet levels",
    "C19": "src/list.c: time stamps (six-month rule against the clock, future dates, time zones, level-0 DOS times versus Unix times), ratio for packed > original and for empty members, column overflow for large sizes, footer totals over many members, file-name patterns selecting a subset",
    "C20": "release paths when system calls fail during lha_reader_extract (open, mkdir, symlink failing), lha_reader_free while a decoder is open in mid-member, the close callback of callback streams (exactly once), header reference counts in the deferred-symlink and directory lists, lha_input_stream_free on every stream kind",
}


def prop_text(d):
    return "Property %s: %s\n\nStatement: %s\n\nQuantifier: %s\n\nWhy the existing tests cannot settle it: %s\n\nWhere it lives in the code (anchors): files %s\nMechanisms:\n%s\n" % (
        d["id"], d["title"], d["statement"], d["quantifier"]["text"], d["why_tests_cant"], ", ".join(d["anchors"]["files"]),
        "\n".join(" - %s (%s)" % (m["name"], m["where"]) for m in d["anchors"]["mechanism"]))


def main():
    rdir, rname = sys.argv[1], sys.argv[2]
    os.makedirs(rdir, exist_ok=True)
    props = {}
    for l in open(os.path.join(VERIF, "properties.jsonl")):
        d = json.loads(l)
        props[d["id"]] = d
    known = {}
    for meta in sorted(glob.glob(os.path.join(VERIF, "seeded", "*", "meta.json"))):
        m = json.load(open(meta))
        s = m.get("summary") or m.get("needs") or ""
        known.setdefault(m["property"], []).append(s.split(";")[0])
    tmpl = open(os.path.join(os.path.dirname(os.path.abspath(__file__)), "prompt_template.txt")).read()
    extra = """
IMPORTANT - this is a %s round. The following ideas have ALREADY been used by others for this property; do not repeat them or close variants of them:
@@KNOWN@@
This time concentrate on: @@FOCUS@@.
Aim for changes that are hard to notice: they should need a fault at a particular point (a failing allocation, write, close or other system call with a particular errno; end of input or a read error at a particular offset), a particular interleaving of two readers, a multi-step sequence of API calls or archive entries, an unusual but legal input shape, a particular state of the file system before the run, a particular combination of options, or two code sites that each look fine alone. A change whose effect is visible on every ordinary archive is not interesting.
""" % rname
    for p, focus in FOCUS_R4.items():
        d = os.path.join(rdir, p)
        t = tmpl.replace("@@DIR@@", d).replace("@@PROP@@", prop_text(props[p]))
        k = "\n".join(" - " + x for x in known.get(p, []))
        t = t.replace("What to produce:", extra.replace("@@KNOWN@@", k).replace("@@FOCUS@@", focus) + "\nWhat to produce:")
        open(os.path.join(rdir, "prompt_%s.txt" % p), "w").write(t)
    print(" ".join(sorted(FOCUS_R4)))


if __name__ == "__main__":
    main()
